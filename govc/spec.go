package main

// Translation of executable spec functions (pure Go in verif_contracts.go) into SMT definitions.

import (
	"fmt"
	"go/ast"
	"go/types"
)

type specInfo struct {
	Name      string
	Fn        *types.Func
	Deps      []string // heap components read (in order)
	DepSorts  []Sort
	Params    []Sort
	Ret       Sort
	inProg    bool
	done      bool
	recursive bool
	fuel      int
	fuelKnown bool
}

// flattenArg: SMT arguments for a Go value passed to a spec function.
func (x *Exec) flattenArg(st *State, v Val, t types.Type) []*Term {
	if isSliceT(t) {
		el := t.Underlying().(*types.Slice).Elem()
		if isObjType(el) || isSliceT(el) {
			x.fail("spec function parameter of type %s is not supported", t)
		}
		if !v.IsSlice() {
			v = x.zeroValNoAlloc(t)
		}
		m := x.heapGet(st, memComp(el), x.memSort(el))
		return []*Term{x.c.Select(m, v.Arr), v.Off, v.Len}
	}
	if v.T == nil {
		x.fail("spec function argument without scalar value (type %s)", t)
	}
	if isOSFile(t) && !x.isFileParam(v.T) {
		// files are passed to spec functions by their ghost file id: the value of a spec function
		// over a file depends only on which file it is, not on the handle
		return []*Term{x.gsel(st, "ghost.fid", v.T)}
	}
	return []*Term{v.T}
}

func isOSFile(t types.Type) bool {
	p, ok := t.Underlying().(*types.Pointer)
	if !ok {
		return false
	}
	n, ok := p.Elem().(*types.Named)
	return ok && n.Obj().Pkg() != nil && n.Obj().Pkg().Path() == "os" && n.Obj().Name() == "File"
}

func (x *Exec) isFileParam(t *Term) bool { return x.fileParams != nil && x.fileParams[t.id] }

func (x *Exec) flatSorts(t types.Type) []Sort {
	if isSliceT(t) {
		el := t.Underlying().(*types.Slice).Elem()
		return []Sort{SArr(x.idxSort(), x.elemSort(el)), x.idxSort(), x.idxSort()}
	}
	return []Sort{x.scalarSort(t)}
}

func (x *Exec) specName(fn *types.Func) string {
	return "spec_" + fn.Pkg().Name() + "_" + fn.Name()
}

func (x *Exec) specApp(st *State, fn *types.Func, e *ast.CallExpr) Val {
	sig := fn.Type().(*types.Signature)
	if sig.Results().Len() != 1 {
		x.fail("spec function %s must have exactly one result", fn.Name())
	}
	si := x.specFor(fn)
	var args []*Term
	vals := x.evalArgs(st, e, sig)
	for i, v := range vals {
		args = append(args, x.flattenArg(st, v, sig.Params().At(i).Type())...)
	}
	for i, d := range si.Deps {
		if ci, ok := x.eng.compElem[d]; ok && !x.specMode {
			x.rangeAxiom(st, d, ci.sort, ci.elem, ci.twoLevel)
		}
		args = append(args, x.heapGet(st, d, si.DepSorts[i]))
	}
	rt := sig.Results().At(0).Type()
	return Val{Typ: rt, T: x.specInstance(si, args, 0)}
}

// specInstance: an application of a spec function. Non-recursive definitions are inlined;
// recursive ones are unfolded when their decreasing argument is a small literal (so that e.g. a
// fold over the 20 header bytes becomes a closed term). Functions named in an `opaque` clause of
// the contract under verification are never inlined.
func (x *Exec) specInstance(si *specInfo, args []*Term, depth int) *Term {
	c := x.c
	d := c.funcs[si.Name]
	opaque := x.con != nil && x.con.Opaque[si.Fn.Name()]
	if x.rootCon != nil && x.rootCon.Opaque[si.Fn.Name()] {
		opaque = true
	}
	if d == nil || d.Body == nil || opaque || si.inProg || depth > 80 {
		return c.App(si.Name, args...)
	}
	if d.Rec {
		fuel := x.fuelParam(si, d)
		if fuel < 0 || !args[fuel].IsLit() {
			return c.App(si.Name, args...)
		}
		v := args[fuel].SignedVal()
		if !v.IsInt64() || v.Int64() > 64 {
			return c.App(si.Name, args...)
		}
	}
	m := map[int]*Term{}
	for i, pn := range d.ParamNames {
		m[x.paramTerm(d, i, pn).id] = args[i]
	}
	body := c.Subst(d.Body, m)
	// unfold nested applications of recursive spec functions whose fuel became a literal
	return x.unfoldSelf(si, body, depth+1)
}

func (x *Exec) paramTerm(d *FuncDecl, i int, name string) *Term {
	return x.c.intern(&Term{op: name, kind: kBound, sort: d.Params[i]})
}

func (x *Exec) unfoldSelf(si *specInfo, t *Term, depth int) *Term {
	c := x.c
	memo := map[int]*Term{}
	var rec func(u *Term) *Term
	rec = func(u *Term) *Term {
		if len(u.args) == 0 {
			return u
		}
		if r, ok := memo[u.id]; ok {
			return r
		}
		nargs := make([]*Term, len(u.args))
		changed := false
		for i, a := range u.args {
			nargs[i] = rec(a)
			if nargs[i] != a {
				changed = true
			}
		}
		var r *Term
		if sj := x.specByName(u); sj != nil {
			r = x.specInstance(sj, nargs, depth)
		} else if !changed {
			r = u
		} else if u.kind == kForall || u.kind == kExists {
			r = u // quantified bodies are left alone
		} else {
			r = c.rebuild(u, nargs)
		}
		memo[u.id] = r
		return r
	}
	return rec(t)
}

// fuelParam: index of the single parameter that changes in the recursive applications (-1 if unclear).
func (x *Exec) fuelParam(si *specInfo, d *FuncDecl) int {
	if si.fuelKnown {
		return si.fuel
	}
	si.fuelKnown = true
	si.fuel = -1
	cand := map[int]bool{}
	seen := map[int]bool{}
	var walk func(t *Term)
	walk = func(t *Term) {
		if seen[t.id] {
			return
		}
		seen[t.id] = true
		if t.kind == kApp && t.op == si.Name {
			for i, a := range t.args {
				if !(a.kind == kBound && a.op == d.ParamNames[i]) {
					cand[i] = true
				}
			}
		}
		for _, a := range t.args {
			walk(a)
		}
	}
	walk(d.Body)
	if len(cand) == 1 {
		for i := range cand {
			if d.Params[i] == SInt || d.Params[i].IsBV() {
				si.fuel = i
			}
		}
	}
	return si.fuel
}

func (x *Exec) specFor(fn *types.Func) *specInfo {
	name := x.specName(fn)
	if si, ok := x.specs[name]; ok {
		if si.inProg {
			si.recursive = true
		}
		return si
	}
	sig := fn.Type().(*types.Signature)
	si := &specInfo{Name: name, Fn: fn, inProg: true}
	x.specs[name] = si
	for i := 0; i < sig.Params().Len(); i++ {
		si.Params = append(si.Params, x.flatSorts(sig.Params().At(i).Type())...)
	}
	rt := sig.Results().At(0).Type()
	if isSliceT(rt) || isObjType(rt) {
		x.fail("spec function %s returns %s: only scalar results can be used in contracts", fn.Name(), rt)
	}
	si.Ret = x.scalarSort(rt)
	key := fnKey(fn)
	decl := x.eng.prog.Decls[key]
	pkg := x.eng.prog.DeclPkg[key]
	if decl == nil || decl.Body == nil {
		x.fail("no body for spec function %s", key)
	}
	for iter := 0; iter < 4; iter++ {
		delete(x.c.funcs, name)
		x.c.DeclareFun(name, append(append([]Sort{}, si.Params...), si.DepSorts...), si.Ret)
		prevDeps := len(si.Deps)
		body, pnames, deps, depSorts := x.translateSpecBody(si, decl, pkg.TypesInfo, sig)
		si.Deps, si.DepSorts = deps, depSorts
		if len(deps) != prevDeps && si.recursive {
			continue // heap dependencies grew: the recursive applications must pass them too
		}
		delete(x.c.funcs, name)
		x.c.funcs[name] = &FuncDecl{Name: name, Params: append(append([]Sort{}, si.Params...), si.DepSorts...), Ret: si.Ret,
			ParamNames: pnames, Body: body, Rec: si.recursive}
		si.inProg = false
		si.done = true
		return si
	}
	x.fail("spec function %s: heap dependencies did not stabilise", fn.Name())
	return nil
}

func (x *Exec) translateSpecBody(si *specInfo, decl *ast.FuncDecl, info *types.Info, sig *types.Signature) (body *Term, pnames []string, deps []string, depSorts []Sort) {
	c := x.c
	sx := &Exec{eng: x.eng, c: c, mode: x.mode, con: nil, info: info, key: si.Name, counters: map[string]int{}, boxed: map[types.Object]bool{},
		placehold: map[string]Val{}, assumed: x.assumed, abstract: x.abstract, specMode: true, specHeap: map[string]*Term{}, loopOrd: map[ast.Stmt]int{},
		rangeFacts: map[int]bool{}, callCount: map[string]int{}, specs: x.specs, globalInit: map[string]bool{}, callSeen: map[string]int{}, rootCon: x.rootOrCon()}
	var depNames []string
	sx.specDeps = &depNames
	// dependencies known from a previous iteration keep their order
	st := &State{reach: c.True(), vars: map[types.Object]Val{}, heap: map[string]*Term{}}
	var params []*Term
	sliceNo := int64(0)
	memBase := map[string]*Term{} // comp -> bound base memory
	for i := 0; i < sig.Params().Len(); i++ {
		p := sig.Params().At(i)
		t := p.Type()
		if isSliceT(t) {
			el := t.Underlying().(*types.Slice).Elem()
			content := c.Bound(p.Name()+"_c", SArr(x.idxSort(), x.elemSort(el)))
			off := c.Bound(p.Name()+"_off", x.idxSort())
			ln := c.Bound(p.Name()+"_len", x.idxSort())
			params = append(params, content, off, ln)
			sliceNo++
			ref := c.Int(-sliceNo)
			comp := memComp(el)
			base, ok := memBase[comp]
			if !ok {
				base = c.Bound("H_"+comp, x.memSort(el))
				memBase[comp] = base
				st.heap[comp] = base
			}
			st.heap[comp] = c.Store(st.heap[comp], ref, content)
			st.vars[p] = Val{Typ: t, Arr: ref, Off: off, Len: ln, Cap: ln}
			continue
		}
		b := c.Bound(p.Name(), x.scalarSort(t))
		params = append(params, b)
		st.vars[p] = Val{Typ: t, T: b}
		if isOSFile(t) {
			if sx.fileParams == nil {
				sx.fileParams = map[int]bool{}
			}
			sx.fileParams[b.id] = true
		}
	}
	// previously discovered deps are pre-bound so that recursive applications see them
	for i, d := range si.Deps {
		if _, isMem := memBase[d]; isMem {
			continue
		}
		b := c.Bound("H_"+d, si.DepSorts[i])
		sx.specHeap[d] = b
	}
	var resultVar *types.Var
	if r := sig.Results().At(0); r.Name() != "" && r.Name() != "_" {
		resultVar = r
		st.vars[r] = sx.zeroValNoAlloc(r.Type())
	}
	sx.resultObjs = []*types.Var{resultVar}
	sx.conSig = sig
	end := sx.block(st, decl.Body.List)
	if !sx.dead(end) {
		if resultVar == nil {
			x.fail("spec function %s: missing return", si.Name)
		}
		end.results = []Val{end.vars[resultVar]}
		sx.returns = append(sx.returns, end)
	}
	merged := sx.mergeN(sx.returns)
	if merged == nil || len(merged.results) != 1 || merged.results[0].T == nil {
		x.fail("spec function %s: no scalar result", si.Name)
	}
	body = merged.results[0].T
	// dependencies: lazily created heap symbols, plus base memories that are really used
	used := map[int]bool{}
	var walk func(t *Term)
	walk = func(t *Term) {
		if used[t.id] {
			return
		}
		used[t.id] = true
		for _, a := range t.args {
			walk(a)
		}
	}
	walk(body)
	var depTerms []*Term
	for comp, base := range memBase {
		if used[base.id] {
			deps = append(deps, comp)
			depSorts = append(depSorts, base.sort)
			depTerms = append(depTerms, base)
		}
	}
	// keep a deterministic order: previously known deps first, then new ones
	seen := map[string]bool{}
	var odeps []string
	var osorts []Sort
	var oterms []*Term
	addDep := func(name string, t *Term) {
		if seen[name] {
			return
		}
		seen[name] = true
		odeps = append(odeps, name)
		osorts = append(osorts, t.sort)
		oterms = append(oterms, t)
	}
	for _, d := range si.Deps {
		if b, ok := memBase[d]; ok {
			addDep(d, b)
		} else if b, ok := sx.specHeap[d]; ok {
			addDep(d, b)
		}
	}
	for i, d := range deps {
		addDep(d, depTerms[i])
	}
	for _, d := range depNames {
		addDep(d, sx.specHeap[d])
	}
	for _, p := range params {
		pnames = append(pnames, p.op)
	}
	for _, t := range oterms {
		pnames = append(pnames, t.op)
	}
	return body, pnames, odeps, osorts
}

func init() { _ = fmt.Sprint }

func (x *Exec) rootOrCon() *Contract {
	if x.rootCon != nil {
		return x.rootCon
	}
	return x.con
}

func (x *Exec) specByName(u *Term) *specInfo {
	if u.kind != kApp {
		return nil
	}
	if si, ok := x.specs[u.op]; ok && si.done && si.recursive {
		return si
	}
	return nil
}
