package main

import (
	"encoding/json"
	"flag"
	"fmt"
	"os"
	"path/filepath"
	"sort"
	"strconv"
	"strings"
	"sync"
	"time"
)

const verifDir = "/verif"

// outDir: where evidence and replay files go (GOVC_OUT redirects them for self-test runs on mutated copies)
func outDir() string {
	if d := os.Getenv("GOVC_OUT"); d != "" {
		return d
	}
	return verifDir
}

func main() {
	if len(os.Args) < 2 {
		fmt.Fprintln(os.Stderr, "usage: govc check|func|list|replay|selftest ...")
		os.Exit(2)
	}
	initScratch()
	code := 0
	func() {
		defer cleanupScratch()
		switch os.Args[1] {
		case "check":
			code = cmdCheck(os.Args[2:])
		case "func":
			code = cmdFunc(os.Args[2:])
		case "list":
			code = cmdList(os.Args[2:])
		case "replay":
			code = cmdReplay(os.Args[2:])
		default:
			fmt.Fprintln(os.Stderr, "unknown subcommand", os.Args[1])
			code = 2
		}
	}()
	os.Exit(code)
}

func repoDir() string {
	if d := os.Getenv("GOVC_REPO"); d != "" {
		return d
	}
	return "/repo"
}

func cmdList(args []string) int {
	p, err := LoadProgram(repoDir())
	if err != nil {
		fmt.Fprintln(os.Stderr, err)
		return 3
	}
	for _, k := range p.Order {
		c := p.Contracts[k]
		if err := p.Bind(c); err != nil {
			fmt.Printf("%-50s BIND ERROR %v\n", k, err)
			continue
		}
		st := "verified"
		if c.Assumed != "" {
			st = "assumed"
		}
		if c.Inline {
			st = "inline"
		}
		fmt.Printf("%-50s %-8s %s %v\n", k, st, c.Ints, c.Props)
	}
	return 0
}

// cmdFunc: verify single functions (debugging aid).
func cmdFunc(args []string) int {
	fs := flag.NewFlagSet("func", flag.ExitOnError)
	timeout := fs.Int("timeout", 10, "solver timeout (s)")
	verbose := fs.Bool("v", false, "verbose")
	only := fs.String("only", "", "solve only obligations whose name contains this text")
	list := fs.Bool("list", false, "generate and list the obligations, do not solve")
	par := fs.Int("par", 5, "obligations solved in parallel")
	fs.Parse(args)
	p, err := LoadProgram(repoDir())
	if err != nil {
		fmt.Fprintln(os.Stderr, err)
		return 3
	}
	rc := 0
	for _, key := range fs.Args() {
		var keys []string
		if strings.HasSuffix(key, "*") {
			for _, k := range p.Order {
				if strings.HasPrefix(k, strings.TrimSuffix(key, "*")) {
					keys = append(keys, k)
				}
			}
		} else {
			keys = []string{key}
		}
		for _, key := range keys {
			con := p.Contracts[key]
			if con == nil {
				fmt.Println("no contract for", key)
				rc = 3
				continue
			}
			t0 := time.Now()
			frs := VerifyFunc(p, con)
			fmt.Fprintf(os.Stderr, "generated in %.1fs\n", time.Since(t0).Seconds())
			for _, fr := range frs {
				for _, o := range fr.Obls {
					if *list || (*only != "" && !strings.Contains(o.Name, *only)) {
						o.Status = "skipped"
					}
					if *list {
						fmt.Printf("  %-70s %s\n", o.Name, o.Text)
					}
				}
			}
			solveAll(frs, *timeout, false, *par)
			for _, fr := range frs {
				if fr.Err != nil {
					fmt.Printf("%s [%s]: UNDECIDED: %v\n", key, fr.Variant, fr.Err)
					rc = 3
					continue
				}
				ok, bad := 0, 0
				for _, o := range fr.Obls {
					if o.Status == "skipped" {
						continue
					}
					good := o.Status == "unsat"
					if o.ExpectSat {
						good = (o.Status != "unsat" || o.UnreachableOK) && o.Status != "error"
					}
					if good {
						ok++
					} else {
						bad++
					}
					if !good || *verbose {
						fmt.Printf("  %-70s %-8s %-12s %.2fs  %s  [%s:%d]\n", o.Name, o.Status, o.Backend, o.Seconds, o.Text, filepath.Base(o.Pos.Filename), o.Pos.Line)
						if !good && o.Model != "" {
							fmt.Printf("      %s\n", firstLines(o.Model, 12))
						}
					}
				}
				fmt.Printf("%s [%s]: %d ok, %d failed (%.1fs)\n", key, fr.Variant, ok, bad, time.Since(t0).Seconds())
				if *verbose {
					for _, a := range fr.Assumed {
						fmt.Println("   assumed:", a)
					}
					for _, a := range fr.Abstract {
						fmt.Println("   abstraction:", a)
					}
				}
				if bad > 0 {
					rc = 1
				}
			}
		}
	}
	return rc
}

// ---------- property checks ----------

type KnownFinding struct {
	Property   string `json:"property"`
	Obligation string `json:"obligation"`
	What       string `json:"what"`
	Status     string `json:"status"` // open | fixed
	Commit     string `json:"commit,omitempty"`
}

func loadKnownFindings() []KnownFinding {
	var out []KnownFinding
	data, err := os.ReadFile(filepath.Join(verifDir, "known_findings.jsonl"))
	if err != nil {
		return nil
	}
	for _, l := range strings.Split(string(data), "\n") {
		l = strings.TrimSpace(l)
		if l == "" || strings.HasPrefix(l, "#") {
			continue
		}
		var k KnownFinding
		if json.Unmarshal([]byte(l), &k) == nil {
			out = append(out, k)
		}
	}
	return out
}

// baseObl: obligation name without the variant ("@...") and the term-level sub-conjunct ("/cN").
func baseObl(name string) string {
	if i := strings.Index(name, "@"); i >= 0 {
		name = name[:i]
	}
	if i := strings.LastIndex(name, "/c"); i >= 0 && i > strings.Index(name, "/") {
		rest := name[i+2:]
		digits := 0
		for digits < len(rest) && rest[digits] >= '0' && rest[digits] <= '9' {
			digits++
		}
		if digits > 0 {
			name = name[:i] + rest[digits:]
		}
	}
	return name
}

type Evidence struct {
	PropertyID  string                 `json:"property_id"`
	Tier        string                 `json:"tier"`
	Seed        int                    `json:"seed"`
	Level       string                 `json:"level"`
	Coverage    map[string]interface{} `json:"coverage"`
	Assumptions []string               `json:"assumptions"`
	WallS       float64                `json:"wall_s"`
	Violations  int                    `json:"violations"`
}

func cmdCheck(args []string) int {
	fs := flag.NewFlagSet("check", flag.ExitOnError)
	prop := fs.String("property", "", "property id")
	tier := fs.String("tier", "", "quick|thorough")
	fs.Parse(args)
	if *tier == "" {
		*tier = os.Getenv("VERIF_TIER")
	}
	if *tier != "thorough" {
		*tier = "quick"
	}
	seed, _ := strconv.Atoi(os.Getenv("VERIF_SEED"))
	t0 := time.Now()
	timeout := 10
	if *tier == "thorough" {
		timeout = 60
	}
	p, err := LoadProgram(repoDir())
	if err != nil {
		if be, ok := err.(*BindError); ok {
			fmt.Printf("UNDECIDED property=%s reason=%s\n", *prop, be.Msg)
			return 3
		}
		fmt.Fprintln(os.Stderr, "load failed:", err)
		fmt.Printf("UNDECIDED property=%s reason=repository does not load with -tags verif: %v\n", *prop, err)
		return 3
	}
	var cons []*Contract
	for _, k := range p.Order {
		c := p.Contracts[k]
		if err := p.Bind(c); err != nil {
			// a contract that cannot be bound matters only if it belongs to this property;
			// props are read before binding, so look at the raw clauses
			if contractHasProp(c, *prop) {
				fmt.Printf("UNDECIDED property=%s reason=%v\n", *prop, err)
				return 3
			}
			continue
		}
		for _, pr := range c.Props {
			if pr == *prop {
				cons = append(cons, c)
			}
		}
	}
	if len(cons) == 0 {
		fmt.Printf("UNDECIDED property=%s reason=no function under contract for this property\n", *prop)
		return 3
	}
	// bind every contract first (binding mutates the contract), then generate obligations in parallel
	for _, k := range p.Order {
		p.Bind(p.Contracts[k])
	}
	results := make([][]*FuncResult, len(cons))
	var wg sync.WaitGroup
	sem := make(chan struct{}, 8)
	for i, c := range cons {
		wg.Add(1)
		sem <- struct{}{}
		go func(i int, c *Contract) {
			defer wg.Done()
			defer func() { <-sem }()
			results[i] = VerifyFunc(p, c)
		}(i, c)
	}
	wg.Wait()
	var frs []*FuncResult
	for _, r := range results {
		frs = append(frs, r...)
	}
	undecided := false
	for _, fr := range frs {
		if fr.Err != nil {
			fmt.Printf("UNDECIDED property=%s reason=%v\n", *prop, fr.Err)
			undecided = true
		}
	}
	if undecided {
		return 3
	}
	solveAll(frs, timeout, *tier == "thorough", 6)
	extra := runExtras(p, *prop, *tier, seed)
	return report(p, *prop, *tier, seed, frs, extra, time.Since(t0))
}

func contractHasProp(c *Contract, prop string) bool {
	for _, pr := range c.Props {
		if pr == prop {
			return true
		}
	}
	for _, rc := range c.raw {
		if rc.kind == "props" {
			for _, f := range strings.Fields(rc.text) {
				if f == prop {
					return true
				}
			}
		}
	}
	return false
}

type ExtraResult struct {
	Obls      []*Obligation
	Bounded   []map[string]interface{}
	Assumed   []string
	Functions []map[string]interface{}
}

func report(p *Program, prop, tier string, seed int, frs []*FuncResult, extra *ExtraResult, wall time.Duration) int {
	known := loadKnownFindings()
	openKF := map[string]KnownFinding{}
	for _, k := range known {
		if k.Property == prop && k.Status == "open" {
			openKF[k.Obligation] = k
		}
	}
	total, discharged := 0, 0
	covers, coversOK := 0, 0
	var solverTime float64
	byBackend := map[string]int{}
	var failed []*Obligation
	var vacuity []*Obligation
	var deadReturns []string
	var toolErr []*Obligation
	assumed := map[string]bool{}
	abstract := map[string]bool{}
	var funcs []map[string]interface{}
	var samples []map[string]interface{}
	type slowT struct {
		name string
		s    float64
	}
	var slow []slowT
	allObls := func() []*Obligation {
		var out []*Obligation
		for _, fr := range frs {
			out = append(out, fr.Obls...)
		}
		if extra != nil {
			out = append(out, extra.Obls...)
		}
		return out
	}()
	for _, fr := range frs {
		n, d := 0, 0
		for _, o := range fr.Obls {
			if o.ExpectSat {
				continue
			}
			n++
			if o.Status == "unsat" {
				d++
			}
		}
		status := "verified"
		if fr.Contract.Assumed != "" {
			status = "assumed-contract: " + fr.Contract.Assumed
		}
		if fr.Contract.Variant != "" {
			status += " (variant contract: body only)"
			assumed["variant contract "+fr.Key+": proved of the body under its own requires; call sites are checked against the function's main contract, not against these requires"] = true
		}
		f := map[string]interface{}{"function": fr.Key, "status": status, "ints": fr.Contract.Ints, "obligations": n, "discharged": d}
		if fr.Variant != "" {
			f["variant"] = fr.Variant
		}
		funcs = append(funcs, f)
		for _, a := range fr.Assumed {
			assumed[a] = true
		}
		for _, a := range fr.Abstract {
			abstract[a] = true
		}
	}
	if extra != nil {
		funcs = append(funcs, extra.Functions...)
		for _, a := range extra.Assumed {
			assumed[a] = true
		}
	}
	for _, o := range allObls {
		solverTime += o.Seconds
		if o.ExpectSat {
			covers++
			switch o.Status {
			case "unsat":
				if o.UnreachableOK {
					deadReturns = append(deadReturns, o.Name)
					coversOK++
					continue
				}
				vacuity = append(vacuity, o)
			case "error":
				toolErr = append(toolErr, o)
			default:
				coversOK++
			}
			continue
		}
		total++
		slow = append(slow, slowT{o.Name, o.Seconds})
		switch o.Status {
		case "unsat":
			discharged++
			byBackend[o.Backend]++
			if len(samples) < 6 && o.Backend != "simplifier" {
				samples = append(samples, map[string]interface{}{"obligation": o.Name, "clause": o.Text, "script_bytes": o.Script, "backend": o.Backend, "seconds": round3(o.Seconds)})
			}
		case "error", "toolarge":
			toolErr = append(toolErr, o)
		default:
			failed = append(failed, o)
		}
	}
	sort.Slice(slow, func(i, j int) bool { return slow[i].s > slow[j].s })
	var slowest []map[string]interface{}
	for i := 0; i < len(slow) && i < 5; i++ {
		slowest = append(slowest, map[string]interface{}{"obligation": slow[i].name, "seconds": round3(slow[i].s)})
	}

	rc := 0
	violations := 0
	knownHit := 0
	os.MkdirAll(filepath.Join(outDir(), "replays", prop), 0o755)
	for _, o := range failed {
		if kf, ok := openKF[baseObl(o.Name)]; ok {
			fmt.Printf("KNOWN-FINDING: property=%s %s [%s]\n", prop, kf.What, o.Name)
			knownHit++
			// a known finding is an open obligation: it is neither counted as discharged nor as a new violation
			continue
		}
		violations++
		path := writeReplay(p, prop, o, frs)
		fmt.Println(violationLine(prop, path, o))
		rc = 1
	}
	for _, o := range vacuity {
		fmt.Printf("UNDECIDED property=%s reason=vacuity: assumptions of %s are contradictory (%s proved false)\n", prop, o.Func, o.Backend)
		if rc == 0 {
			rc = 3
		}
	}
	for _, o := range toolErr {
		fmt.Printf("UNDECIDED property=%s reason=tool error on %s: %s\n", prop, o.Name, firstLines(o.Model, 3))
		if rc == 0 {
			rc = 3
		}
	}
	if extra != nil {
		for _, b := range extra.Bounded {
			if v, ok := b["violation"].(string); ok && v != "" {
				violations++
				path := filepath.Join(outDir(), "replays", prop, sanitize(fmt.Sprint(b["name"]))+".json")
				data, _ := json.MarshalIndent(b, "", " ")
				os.WriteFile(path, data, 0o644)
				fmt.Printf("VIOLATION property=%s replay=%s bounded-check %v: %s\n", prop, path, b["name"], v)
				rc = 1
			} else if e, ok := b["error"].(string); ok && e != "" {
				// the bounded stand-in did not run (build failure, template missing): not a pass
				fmt.Printf("UNDECIDED property=%s reason=bounded check %v did not run: %s\n", prop, b["name"], firstLines(e, 3))
				if rc == 0 {
					rc = 3
				}
			}
		}
	}

	ev := Evidence{PropertyID: prop, Tier: tier, Seed: seed, Level: "proof", WallS: round3(wall.Seconds()), Violations: violations}
	tb := []string{
		"govc (own VC generator: front end, heap model, weakest-precondition engine) — /verif/govc",
		"SMT solvers z3 4.8.12, z3 5.1.0, cvc5 1.0 (first definite answer)",
		"go/types and golang.org/x/tools/go/packages v0.29.0 (typed AST of /repo, -tags verif)",
		"sequential, crash-free execution of each function (no other goroutine, no process death)",
	}
	cov := map[string]interface{}{
		"obligations":              total - knownHit,
		"discharged":               discharged,
		"open_known_findings":      knownHit,
		"checker_cmd":              fmt.Sprintf("/verif/bin/govc check -property %s -tier %s", prop, tier),
		"trusted_base":             tb,
		"functions_under_contract": funcs,
		"by_backend":               byBackend,
		"solver_time_s":            round3(solverTime),
		"slowest":                  slowest,
		"covers_checked":           covers,
		"covers_satisfiable":       coversOK,
		"abstractions":             sortedKeys(abstract),
		"dead_return_sites":        deadReturns,
		"samples":                  samples,
	}
	if extra != nil && len(extra.Bounded) > 0 {
		cov["bounded_checks"] = extra.Bounded
	}
	ev.Coverage = cov
	ev.Assumptions = sortedKeys(assumed)
	for _, a := range sortedKeys(abstract) {
		ev.Assumptions = append(ev.Assumptions, "abstraction: "+a)
	}
	if len(ev.Assumptions) == 0 {
		ev.Assumptions = []string{"none beyond the trusted base"}
	}
	data, _ := json.MarshalIndent(ev, "", " ")
	os.MkdirAll(filepath.Join(outDir(), "evidence"), 0o755)
	os.WriteFile(filepath.Join(outDir(), "evidence", prop+".json"), data, 0o644)
	fmt.Printf("property=%s tier=%s obligations=%d discharged=%d known-findings=%d violations=%d covers=%d/%d wall=%.1fs\n",
		prop, tier, total, discharged, knownHit, violations, coversOK, covers, wall.Seconds())
	return rc
}

func round3(f float64) float64 { return float64(int(f*1000+0.5)) / 1000 }

func violationLine(prop, path string, o *Obligation) string {
	s := fmt.Sprintf("VIOLATION property=%s replay=%s obligation=%s status=%s", prop, path, o.Name, o.Status)
	if !o.replayConfirmed {
		s += " no-failing-input-found"
	}
	return s
}
