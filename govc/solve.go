package main

// Solver portfolio: z3 4.8.12, z3-new 5.1.0, cvc5 — first definite answer wins.

import (
	"bytes"
	"context"
	"fmt"
	"os"
	"os/exec"
	"path/filepath"
	"strings"
	"sync"
	"time"
)

type solverSpec struct {
	Name string
	Args func(file string, timeoutS int) []string
	Bin  string
}

var solvers = []solverSpec{
	{Name: "z3-4.8.12", Bin: "/usr/bin/z3", Args: func(f string, t int) []string { return []string{fmt.Sprintf("-T:%d", t), f} }},
	{Name: "z3-5.1.0", Bin: "z3-new", Args: func(f string, t int) []string { return []string{fmt.Sprintf("-T:%d", t), f} }},
	{Name: "cvc5-1.0", Bin: "cvc5", Args: func(f string, t int) []string {
		return []string{fmt.Sprintf("--tlimit=%d", t*1000), "--produce-models", "--full-saturate-quant", f}
	}},
}

type solveResult struct {
	Status  string
	Backend string
	Output  string
	Seconds float64
	All     map[string]string
}

var scratchDir string

func initScratch() {
	scratchDir = filepath.Join("/verif/.scratch", fmt.Sprintf("%d", os.Getpid()))
	os.MkdirAll(scratchDir, 0o755)
}

func cleanupScratch() {
	if scratchDir != "" {
		os.RemoveAll(scratchDir)
	}
}

var fileSeq struct {
	sync.Mutex
	n int
}

func runPortfolio(script string, timeoutS int, wantAll bool) solveResult {
	fileSeq.Lock()
	fileSeq.n++
	n := fileSeq.n
	fileSeq.Unlock()
	file := filepath.Join(scratchDir, fmt.Sprintf("q%d.smt2", n))
	os.WriteFile(file, []byte(script), 0o644)
	defer os.Remove(file)
	ctx, cancel := context.WithTimeout(context.Background(), time.Duration(timeoutS+5)*time.Second)
	defer cancel()
	type one struct {
		name, status, out string
		secs              float64
	}
	ch := make(chan one, len(solvers))
	start := time.Now()
	for _, s := range solvers {
		s := s
		go func() {
			t0 := time.Now()
			cmd := exec.CommandContext(ctx, s.Bin, s.Args(file, timeoutS)...)
			var out bytes.Buffer
			cmd.Stdout = &out
			cmd.Stderr = &out
			cmd.Run()
			txt := out.String()
			first := strings.TrimSpace(strings.SplitN(txt, "\n", 2)[0])
			status := "unknown"
			switch first {
			case "sat", "unsat":
				status = first
			case "timeout":
				status = "timeout"
			default:
				if strings.Contains(first, "error") || strings.Contains(txt, "(error") && !strings.HasPrefix(first, "unknown") {
					status = "error"
				}
				if strings.HasPrefix(first, "cvc5 interrupted by timeout") || strings.Contains(first, "interrupted") {
					status = "timeout"
				}
			}
			ch <- one{s.Name, status, txt, time.Since(t0).Seconds()}
		}()
	}
	res := solveResult{Status: "unknown", All: map[string]string{}}
	var errs []string
	for i := 0; i < len(solvers); i++ {
		r := <-ch
		res.All[r.name] = r.status
		if r.status == "error" {
			errs = append(errs, r.name+": "+firstLines(r.out, 3))
		}
		if (r.status == "sat" || r.status == "unsat") && res.Backend == "" {
			res.Status, res.Backend, res.Output, res.Seconds = r.status, r.name, r.out, r.secs
			if !wantAll {
				cancel()
				break
			}
		}
	}
	if res.Backend == "" {
		res.Seconds = time.Since(start).Seconds()
		allErr := len(errs) == len(solvers)
		if allErr {
			res.Status = "error"
			res.Output = strings.Join(errs, "\n")
		} else {
			res.Status = "unknown"
			res.Output = strings.Join(errs, "\n")
		}
	}
	return res
}

func firstLines(s string, n int) string {
	ls := strings.Split(strings.TrimSpace(s), "\n")
	if len(ls) > n {
		ls = ls[:n]
	}
	return strings.Join(ls, " | ")
}

const maxScriptBytes = 4 << 20

// solveObligation decides one obligation (with retry and optional case split).
func solveObligation(fr *FuncResult, o *Obligation, timeoutS int, thorough bool) {
	if o.Status != "" {
		return
	}
	c := fr.Ctx
	x := fr.Exec
	extra := x.strLitFacts()
	build := func(more ...*Term) Script {
		as := append(append([]*Term{}, extra...), o.Assumptions...)
		as = append(as, more...)
		var vals []*Term
		if !o.ExpectSat {
			vals = o.Values
		}
		return c.BuildScript(as, o.Goal, vals, ScriptOpts{Opaque: o.Opaque})
	}
	sc := build()
	o.Script = len(sc.Text)
	if len(sc.Text) > maxScriptBytes {
		o.Status = "toolarge"
		o.Model = fmt.Sprintf("script of %d bytes exceeds the cap of %d", len(sc.Text), maxScriptBytes)
		return
	}
	if os.Getenv("GOVC_DUMP") != "" {
		os.MkdirAll(os.Getenv("GOVC_DUMP"), 0o755)
		os.WriteFile(filepath.Join(os.Getenv("GOVC_DUMP"), sanitize(o.Name)+".smt2"), []byte(sc.Text), 0o644)
	}
	if o.ExpectSat {
		t := 3
		r := runPortfolio(sc.Text, t, false)
		o.Status, o.Backend, o.Seconds = r.Status, r.Backend, r.Seconds
		if r.Status == "error" {
			o.Model = r.Output
		}
		return
	}
	if o.Timeout > 0 {
		timeoutS = o.Timeout
	}
	r := runPortfolio(sc.Text, timeoutS, false)
	o.Seconds = r.Seconds
	if r.Status == "unknown" || r.Status == "timeout" {
		// retry once with a doubled limit (keeps solver noise out)
		o.Retries++
		r2 := runPortfolio(sc.Text, 2*timeoutS, false)
		o.Seconds += r2.Seconds
		if r2.Status == "sat" || r2.Status == "unsat" {
			r = r2
		}
	}
	if (r.Status == "unknown" || r.Status == "timeout") && len(o.Split) > 1 {
		// case split over the return sites
		all := true
		var secs float64
		backends := map[string]bool{}
		for _, cond := range o.Split {
			s2 := build(cond)
			rr := runPortfolio(s2.Text, timeoutS, false)
			secs += rr.Seconds
			if rr.Status == "sat" {
				r = rr
				all = false
				break
			}
			if rr.Status != "unsat" {
				all = false
				r = rr
				break
			}
			backends[rr.Backend] = true
		}
		o.Seconds += secs
		if all {
			var bs []string
			for b := range backends {
				bs = append(bs, b)
			}
			o.Status, o.Backend = "unsat", strings.Join(bs, "+")+" (split)"
			return
		}
	}
	o.Status, o.Backend = r.Status, r.Backend
	if r.Status == "sat" {
		o.Model = r.Output
	} else if r.Status != "unsat" {
		o.Model = r.Output
	}
}

// solveAll runs the obligations of several function results with bounded parallelism.
func solveAll(frs []*FuncResult, timeoutS int, thorough bool, par int) {
	type job struct {
		fr *FuncResult
		o  *Obligation
	}
	var jobs []job
	for _, fr := range frs {
		for _, o := range fr.Obls {
			if o.Status == "" {
				jobs = append(jobs, job{fr, o})
			}
		}
	}
	// building scripts touches the (non thread-safe) term context of a function: serialise per function
	locks := map[*FuncResult]*sync.Mutex{}
	for _, fr := range frs {
		locks[fr] = &sync.Mutex{}
	}
	sem := make(chan struct{}, par)
	var wg sync.WaitGroup
	for _, j := range jobs {
		wg.Add(1)
		sem <- struct{}{}
		go func(j job) {
			defer wg.Done()
			defer func() { <-sem }()
			solveLocked(locks[j.fr], j.fr, j.o, timeoutS, thorough)
		}(j)
	}
	wg.Wait()
}

var ctxBuildLock sync.Mutex

func solveLocked(mu *sync.Mutex, fr *FuncResult, o *Obligation, timeoutS int, thorough bool) {
	// BuildScript mutates the context (hash-consing of negated goals): guard it globally per call
	solveObligationLocked(mu, fr, o, timeoutS, thorough)
}

func solveObligationLocked(mu *sync.Mutex, fr *FuncResult, o *Obligation, timeoutS int, thorough bool) {
	origBuild := fr.Ctx
	_ = origBuild
	// pre-build under the lock, then solve without it
	mu.Lock()
	locked := true
	defer func() {
		if locked {
			mu.Unlock()
		}
	}()
	if o.Status != "" {
		return
	}
	c := fr.Ctx
	x := fr.Exec
	extra := x.strLitFacts()
	build := func(more ...*Term) Script {
		as := append(append([]*Term{}, extra...), o.Assumptions...)
		as = append(as, more...)
		var vals []*Term
		if !o.ExpectSat {
			vals = o.Values
		}
		return c.BuildScript(as, o.Goal, vals, ScriptOpts{Opaque: o.Opaque})
	}
	sc := build()
	var splitScripts []Script
	for _, cond := range o.Split {
		if len(o.Split) > 1 {
			splitScripts = append(splitScripts, build(cond))
		}
	}
	mu.Unlock()
	locked = false

	o.Script = len(sc.Text)
	if len(sc.Text) > maxScriptBytes {
		o.Status = "toolarge"
		o.Model = fmt.Sprintf("script of %d bytes exceeds the cap of %d", len(sc.Text), maxScriptBytes)
		return
	}
	if d := os.Getenv("GOVC_DUMP"); d != "" {
		os.MkdirAll(d, 0o755)
		os.WriteFile(filepath.Join(d, sanitize(o.Name)+".smt2"), []byte(sc.Text), 0o644)
	}
	if o.ExpectSat {
		r := runPortfolio(sc.Text, 3, false)
		o.Status, o.Backend, o.Seconds = r.Status, r.Backend, r.Seconds
		if r.Status == "error" {
			o.Model = r.Output
		}
		return
	}
	if o.Timeout > 0 {
		timeoutS = o.Timeout
	}
	r := runPortfolio(sc.Text, timeoutS, false)
	o.Seconds = r.Seconds
	if r.Status != "sat" && r.Status != "unsat" && r.Status != "error" {
		o.Retries++
		r2 := runPortfolio(sc.Text, 2*timeoutS, false)
		o.Seconds += r2.Seconds
		if r2.Status == "sat" || r2.Status == "unsat" {
			r = r2
		}
	}
	if r.Status != "sat" && r.Status != "unsat" && len(splitScripts) > 1 {
		all := true
		backends := map[string]bool{}
		for _, s2 := range splitScripts {
			rr := runPortfolio(s2.Text, timeoutS, false)
			o.Seconds += rr.Seconds
			if rr.Status != "unsat" {
				all = false
				r = rr
				break
			}
			backends[rr.Backend] = true
		}
		if all {
			var bs []string
			for b := range backends {
				bs = append(bs, b)
			}
			o.Status, o.Backend = "unsat", strings.Join(bs, "+")+" (split over return sites)"
			return
		}
	}
	o.Status, o.Backend = r.Status, r.Backend
	if r.Status != "unsat" {
		o.Model = r.Output
	}
}
