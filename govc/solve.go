package main

// Solver portfolio: z3 4.8.12, z3-new 5.1.0, cvc5 — first definite answer wins.

import (
	"bytes"
	"context"
	"fmt"
	"os"
	"os/exec"
	"path/filepath"
	"strings"
	"sync"
	"time"
)

type solverSpec struct {
	Name string
	Args func(file string, timeoutS int) []string
	Bin  string
}

var solvers = []solverSpec{
	{Name: "z3-4.8.12", Bin: "/usr/bin/z3", Args: func(f string, t int) []string { return []string{fmt.Sprintf("-T:%d", t), f} }},
	{Name: "z3-5.1.0", Bin: "z3-new", Args: func(f string, t int) []string { return []string{fmt.Sprintf("-T:%d", t), f} }},
	{Name: "cvc5-1.0", Bin: "cvc5", Args: func(f string, t int) []string {
		return []string{fmt.Sprintf("--tlimit=%d", t*1000), "--produce-models", "--full-saturate-quant", f}
	}},
}

type solveResult struct {
	Status  string
	Backend string
	Output  string
	Seconds float64
	All     map[string]string
}

var scratchDir string

func initScratch() {
	scratchDir = filepath.Join("/verif/.scratch", fmt.Sprintf("%d", os.Getpid()))
	os.MkdirAll(scratchDir, 0o755)
}

func cleanupScratch() {
	if scratchDir != "" {
		os.RemoveAll(scratchDir)
	}
}

var fileSeq struct {
	sync.Mutex
	n int
}

func runPortfolio(script string, timeoutS int, wantAll bool) solveResult {
	fileSeq.Lock()
	fileSeq.n++
	n := fileSeq.n
	fileSeq.Unlock()
	file := filepath.Join(scratchDir, fmt.Sprintf("q%d.smt2", n))
	os.WriteFile(file, []byte(script), 0o644)
	defer os.Remove(file)
	ctx, cancel := context.WithTimeout(context.Background(), time.Duration(timeoutS+5)*time.Second)
	defer cancel()
	type one struct {
		name, status, out string
		secs              float64
	}
	ch := make(chan one, len(solvers))
	start := time.Now()
	for _, s := range solvers {
		s := s
		go func() {
			t0 := time.Now()
			cmd := exec.CommandContext(ctx, s.Bin, s.Args(file, timeoutS)...)
			var out bytes.Buffer
			cmd.Stdout = &out
			cmd.Stderr = &out
			cmd.Run()
			txt := out.String()
			first := strings.TrimSpace(strings.SplitN(txt, "\n", 2)[0])
			status := "unknown"
			switch first {
			case "sat", "unsat":
				status = first
			case "timeout":
				status = "timeout"
			default:
				if strings.Contains(first, "error") || strings.Contains(txt, "(error") && !strings.HasPrefix(first, "unknown") {
					status = "error"
				}
				if strings.HasPrefix(first, "cvc5 interrupted by timeout") || strings.Contains(first, "interrupted") {
					status = "timeout"
				}
			}
			ch <- one{s.Name, status, txt, time.Since(t0).Seconds()}
		}()
	}
	res := solveResult{Status: "unknown", All: map[string]string{}}
	var errs []string
	for i := 0; i < len(solvers); i++ {
		r := <-ch
		res.All[r.name] = r.status
		if r.status == "error" {
			errs = append(errs, r.name+": "+firstLines(r.out, 3))
		}
		if (r.status == "sat" || r.status == "unsat") && res.Backend == "" {
			res.Status, res.Backend, res.Output, res.Seconds = r.status, r.name, r.out, r.secs
			if !wantAll {
				cancel()
				break
			}
		}
	}
	if res.Backend == "" {
		res.Seconds = time.Since(start).Seconds()
		allErr := len(errs) == len(solvers)
		if allErr {
			res.Status = "error"
			res.Output = strings.Join(errs, "\n")
		} else {
			res.Status = "unknown"
			res.Output = strings.Join(errs, "\n")
		}
	}
	return res
}

func firstLines(s string, n int) string {
	ls := strings.Split(strings.TrimSpace(s), "\n")
	if len(ls) > n {
		ls = ls[:n]
	}
	return strings.Join(ls, " | ")
}

const maxScriptBytes = 4 << 20

// solveAll runs the obligations of several function results with bounded parallelism.
func solveAll(frs []*FuncResult, timeoutS int, thorough bool, par int) {
	type job struct {
		fr *FuncResult
		o  *Obligation
	}
	var jobs []job
	for _, fr := range frs {
		for _, o := range fr.Obls {
			if o.Status == "" {
				jobs = append(jobs, job{fr, o})
			}
		}
	}
	// building scripts touches the (non thread-safe) term context of a function: serialise per function
	locks := map[*FuncResult]*sync.Mutex{}
	for _, fr := range frs {
		locks[fr] = &sync.Mutex{}
	}
	sem := make(chan struct{}, par)
	var wg sync.WaitGroup
	for _, j := range jobs {
		wg.Add(1)
		sem <- struct{}{}
		go func(j job) {
			defer wg.Done()
			defer func() { <-sem }()
			solveLocked(locks[j.fr], j.fr, j.o, timeoutS, thorough)
		}(j)
	}
	wg.Wait()
}

var ctxBuildLock sync.Mutex

func solveLocked(mu *sync.Mutex, fr *FuncResult, o *Obligation, timeoutS int, thorough bool) {
	// BuildScript mutates the context (hash-consing of negated goals): guard it globally per call
	solveObligationLocked(mu, fr, o, timeoutS, thorough)
	if os.Getenv("GOVC_PROGRESS") != "" {
		fmt.Fprintf(os.Stderr, "  [%s] %-8s %-28s %6.1fs %7dB  %s\n", time.Now().Format("15:04:05"), o.Status, o.Backend, o.Seconds, o.Script, o.Name)
	}
}

func solveObligationLocked(mu *sync.Mutex, fr *FuncResult, o *Obligation, timeoutS int, thorough bool) {
	origBuild := fr.Ctx
	_ = origBuild
	// pre-build under the lock, then solve without it
	mu.Lock()
	locked := true
	defer func() {
		if locked {
			mu.Unlock()
		}
	}()
	if o.Status != "" {
		return
	}
	c := fr.Ctx
	x := fr.Exec
	extra := x.strLitFacts()
	build := func(more ...*Term) Script {
		as := append(append([]*Term{}, extra...), o.Assumptions...)
		as = append(as, more...)
		var vals []*Term
		if !o.ExpectSat {
			vals = o.Values
		}
		return c.BuildScript(as, o.Goal, vals, ScriptOpts{Opaque: o.Opaque})
	}
	sc := build()
	// cone of influence: a slice of the assumptions that share symbols with the goal (transitively).
	// Dropping assumptions only weakens them, so `unsat` on the slice is a proof; any other answer
	// on the slice is ignored and the full script decides.
	var sliced *Script
	if !o.ExpectSat && len(o.Assumptions) > 12 {
		as := append(append([]*Term{}, extra...), o.Assumptions...)
		if sl := coneOfInfluence(as, o.Goal); len(sl) < len(as)*3/4 {
			s2 := c.BuildScript(sl, o.Goal, nil, ScriptOpts{Opaque: o.Opaque})
			sliced = &s2
		}
	}
	var cutScript *Script
	if len(o.Cut) > 0 && !o.ExpectSat {
		s3 := build(o.Cut...)
		cutScript = &s3
	}
	var splitScripts []Script
	for _, cond := range o.Split {
		if len(o.Split) > 1 {
			splitScripts = append(splitScripts, build(cond))
		}
	}
	mu.Unlock()
	locked = false

	o.Script = len(sc.Text)
	if len(sc.Text) > maxScriptBytes {
		o.Status = "toolarge"
		o.Model = fmt.Sprintf("script of %d bytes exceeds the cap of %d", len(sc.Text), maxScriptBytes)
		return
	}
	if d := os.Getenv("GOVC_DUMP"); d != "" {
		os.MkdirAll(d, 0o755)
		os.WriteFile(filepath.Join(d, sanitize(o.Name)+".smt2"), []byte(sc.Text), 0o644)
	}
	if o.ExpectSat {
		r := runPortfolio(sc.Text, 3, false)
		o.Status, o.Backend, o.Seconds = r.Status, r.Backend, r.Seconds
		if r.Status == "error" {
			o.Model = r.Output
		}
		return
	}
	if o.Timeout > 0 {
		timeoutS = o.Timeout
	}
	if sliced != nil {
		rs := runPortfolio(sliced.Text, timeoutS, false)
		o.Seconds += rs.Seconds
		if rs.Status == "unsat" {
			o.Status, o.Backend = "unsat", rs.Backend+" (sliced)"
			return
		}
	}
	r := runPortfolio(sc.Text, timeoutS, false)
	o.Seconds += r.Seconds
	if r.Status != "sat" && r.Status != "unsat" && r.Status != "error" {
		o.Retries++
		r2 := runPortfolio(sc.Text, 2*timeoutS, false)
		o.Seconds += r2.Seconds
		if r2.Status == "sat" || r2.Status == "unsat" {
			r = r2
		}
	}
	if r.Status != "unsat" && r.Status != "error" && cutScript != nil {
		// not discharged on its own: use the earlier conjuncts (proved separately) as lemmas
		rc := runPortfolio(cutScript.Text, timeoutS, false)
		o.Seconds += rc.Seconds
		if rc.Status == "unsat" {
			o.Status, o.Backend = "unsat", rc.Backend+" (earlier clauses as lemmas)"
			return
		}
		if rc.Status == "sat" || r.Status != "sat" {
			r = rc
		}
	}
	if r.Status != "sat" && r.Status != "unsat" && len(splitScripts) > 1 {
		all := true
		backends := map[string]bool{}
		for si, s2 := range splitScripts {
			rr := runPortfolio(s2.Text, timeoutS, false)
			o.Seconds += rr.Seconds
			if os.Getenv("GOVC_SPLITDEBUG") != "" {
				fmt.Fprintf(os.Stderr, "    split %d/%d of %s: %s %s %.1fs\n", si+1, len(splitScripts), o.Name, rr.Status, rr.Backend, rr.Seconds)
				if rr.Status != "unsat" {
					all = false
					r = rr
				}
				continue
			}
			if rr.Status != "unsat" {
				all = false
				r = rr
				break
			}
			backends[rr.Backend] = true
		}
		if all {
			var bs []string
			for b := range backends {
				bs = append(bs, b)
			}
			o.Status, o.Backend = "unsat", strings.Join(bs, "+")+" (split over return sites)"
			return
		}
	}
	if r.Status != "sat" && r.Status != "unsat" && r.Status != "error" {
		// last resort before an obligation is reported as not discharged: one long attempt (a
		// timeout on a loaded machine must not become a false alarm)
		last := sc
		if cutScript != nil {
			last = *cutScript
		}
		o.Retries++
		r3 := runPortfolio(last.Text, 6*timeoutS, false)
		o.Seconds += r3.Seconds
		if r3.Status == "unsat" {
			o.Status, o.Backend = "unsat", r3.Backend+" (long attempt)"
			return
		}
		if r3.Status == "sat" {
			r = r3
		}
	}
	o.Status, o.Backend = r.Status, r.Backend
	if r.Status != "unsat" {
		o.Model = r.Output
	}
}

// coneOfInfluence: assumptions connected to the goal through shared free symbols (constants and
// uninterpreted/defined functions). Allocation bookkeeping symbols are hubs shared by almost
// every fact and do not connect by themselves.
func coneOfInfluence(as []*Term, goal *Term) []*Term {
	hub := func(name string) bool {
		return strings.Contains(name, "alloc") || strings.Contains(name, "ghost.brk") || strings.Contains(name, "_brk!")
	}
	symCache := map[int]map[string]bool{}
	var symsOf func(t *Term) map[string]bool
	symsOf = func(t *Term) map[string]bool {
		if m, ok := symCache[t.id]; ok {
			return m
		}
		m := map[string]bool{}
		seen := map[int]bool{}
		var walk func(x *Term)
		walk = func(x *Term) {
			if seen[x.id] {
				return
			}
			seen[x.id] = true
			switch x.kind {
			case kConst:
				if !hub(x.op) {
					m[x.op] = true
				}
			case kApp:
				if strings.HasPrefix(x.op, "spec_") || strings.HasPrefix(x.op, "uf_") || strings.HasPrefix(x.op, "ghost_") || strings.HasPrefix(x.op, "fnvar_") || strings.HasPrefix(x.op, "str_") || strings.HasPrefix(x.op, "elemref") || strings.HasPrefix(x.op, "maplen") || strings.HasPrefix(x.op, "umul") {
					m[x.op] = true
				}
			}
			for _, a := range x.args {
				walk(a)
			}
		}
		walk(t)
		symCache[t.id] = m
		return m
	}
	rel := map[string]bool{}
	for k := range symsOf(goal) {
		rel[k] = true
	}
	in := make([]bool, len(as))
	// the path condition (last assumption) is always kept
	if n := len(as); n > 0 {
		in[n-1] = true
		for k := range symsOf(as[n-1]) {
			rel[k] = true
		}
	}
	for changed := true; changed; {
		changed = false
		for i, a := range as {
			if in[i] {
				continue
			}
			sy := symsOf(a)
			hit := false
			for k := range sy {
				if rel[k] {
					hit = true
					break
				}
			}
			if hit {
				in[i] = true
				changed = true
				for k := range sy {
					rel[k] = true
				}
			}
		}
	}
	var out []*Term
	for i, a := range as {
		if in[i] {
			out = append(out, a)
		}
	}
	return out
}
