package main

// Ghost I/O model: files, buffered readers, byte-stream writers (assumed library contracts).
//
//  ghost.fid    : *os.File ref -> file id            ghost.fpos : *os.File ref -> seek offset
//  ghost.fsize  : file id -> size                    ghost.fdata: file id -> content
//  ghost.rfile  : *bufio.Reader ref -> *os.File ref  ghost.rpos : reader ref -> file offset of the next byte delivered
//  ghost.wdata  : writer ref -> bytes accepted       ghost.wlen : writer ref -> number of bytes accepted
//  ghost.iofail : some modelled I/O call failed for a reason other than end of file
//
// A bufio.Reader keeps delivering from its own position: seeking the underlying file without
// Reset does not move it (approximation of "buffered data is delivered first").

import (
	"go/ast"
	"go/types"
)

func (x *Exec) byteSort() Sort {
	if x.mode == "bv" {
		return SBV(8)
	}
	return SInt
}

type ghostComp struct {
	name string
	sort func(x *Exec) Sort
}

var ghostIOComps = []ghostComp{
	{"ghost.fid", func(x *Exec) Sort { return SArr(SInt, SInt) }},
	{"ghost.fpos", func(x *Exec) Sort { return SArr(SInt, x.idxSort()) }},
	{"ghost.fsize", func(x *Exec) Sort { return SArr(SInt, x.idxSort()) }},
	{"ghost.fdata", func(x *Exec) Sort { return SArr(SInt, SArr(x.idxSort(), x.byteSort())) }},
	{"ghost.rfile", func(x *Exec) Sort { return SArr(SInt, SInt) }},
	{"ghost.rpos", func(x *Exec) Sort { return SArr(SInt, x.idxSort()) }},
	{"ghost.wdata", func(x *Exec) Sort { return SArr(SInt, SArr(x.idxSort(), x.byteSort())) }},
	{"ghost.wlen", func(x *Exec) Sort { return SArr(SInt, x.idxSort()) }},
	{"ghost.iofail", func(x *Exec) Sort { return SBool }},
	{"ghost.fisize", func(x *Exec) Sort { return SArr(SInt, x.idxSort()) }},
	{"ghost.wflushed", func(x *Exec) Sort { return SArr(SInt, x.idxSort()) }},
	{"ghost.rended", func(x *Exec) Sort { return SArr(SInt, SBool) }},
}

func (x *Exec) gcomp(st *State, name string) *Term {
	for _, g := range ghostIOComps {
		if g.name == name {
			if x.mode == "math" && !x.specMode && (name == "ghost.fdata" || name == "ghost.wdata") && !x.globalInit["range:"+name] {
				// bytes of ghost files and streams are bytes
				if _, exists := st.heap[name]; !exists {
					x.globalInit["range:"+name] = true
					h := x.heapGet(st, name, g.sort(x))
					c := x.c
					r := c.Bound("r", SInt)
					i := c.Bound("i", SInt)
					e := c.Select(c.Select(h, r), i)
					x.assumeGlobal(st, c.Forall([]*Term{r, i}, c.And(c.Le(c.Int(0), e), c.Le(e, c.Int(255))), []*Term{e}))
				}
			}
			return x.heapGet(st, name, g.sort(x))
		}
	}
	x.fail("unknown ghost component %s", name)
	return nil
}

func (x *Exec) gsel(st *State, name string, idx *Term) *Term { return x.c.Select(x.gcomp(st, name), idx) }
func (x *Exec) gset(st *State, name string, idx, v *Term) {
	x.heapSet(st, name, x.c.Store(x.gcomp(st, name), idx, v))
}

func (x *Exec) ioFail(st *State, what string) *Term {
	if rc := x.rootOrCon(); rc != nil && rc.ReliableIO {
		x.assumed["reliable_io: file operations of "+rc.Key+" do not fail for environmental reasons (open, stat, read errors other than end of file)"] = true
		return x.c.False()
	}
	fail := x.c.Fresh("iofail_"+what, SBool)
	x.heapSet(st, "ghost.iofail", x.c.Or(x.gcomp(st, "ghost.iofail"), fail))
	return fail
}

var errorType = types.Universe.Lookup("error").Type()

func (x *Exec) freshErr(st *State, name string) Val {
	v := x.freshVal(st, name, errorType)
	return v
}

func (x *Exec) pathID(s *Term) *Term { return x.uninterp("ghost_pathid", SInt, s) }

// ioSentinel: package-level error variables of io are distinct non-nil values.
func (x *Exec) ioSentinels(st *State) (eof, ueof *Term) {
	eof = x.heapGet(st, "G.io.EOF", SInt)
	ueof = x.heapGet(st, "G.io.ErrUnexpectedEOF", SInt)
	c := x.c
	x.assumeGlobal(st, c.And(c.Gt(eof, c.Int(0)), c.Gt(ueof, c.Int(0)), c.Neq(eof, ueof)))
	return
}

// fileRead: read L bytes at file offset pos of file id into slice b (contents replaced on success).
// Returns the condition "all L bytes were available and no failure".
func (x *Exec) fileRead(st *State, id, pos *Term, b Val, what string) (ok, fail, avail *Term) {
	c := x.c
	size := x.gsel(st, "ghost.fsize", id)
	data := x.gsel(st, "ghost.fdata", id)
	x.assumeGlobal(st, c.And(x.idxLe(x.idxLit(0), size), x.idxLe(size, x.idxBig())))
	fail = x.ioFail(st, what)
	end := x.idxAdd(pos, b.Len)
	ok = c.And(c.Not(fail), x.idxLe(x.idxLit(0), pos), x.idxLe(end, size))
	avail = x.idxSub(size, pos)
	// buffer contents: on success exactly the file bytes, otherwise unconstrained
	comp := memComp(u8)
	m := x.heapGet(st, comp, x.memSort(u8))
	old := c.Select(m, b.Arr)
	nw := c.Fresh("readbuf", old.sort)
	j := c.Bound("j", x.idxSort())
	inR := c.And(x.idxLe(b.Off, j), x.idxLt(j, x.idxAdd(b.Off, b.Len)))
	x.assumeGlobal(st, c.Forall([]*Term{j}, c.Implies(c.Not(inR), c.Eq(c.Select(nw, j), c.Select(old, j))), []*Term{c.Select(nw, j)}))
	x.assume(st, c.Implies(ok, c.Forall([]*Term{j}, c.Implies(inR, c.Eq(c.Select(nw, j), c.Select(data, x.idxAdd(pos, x.idxSub(j, b.Off))))), []*Term{c.Select(nw, j)})))
	x.heapSet(st, comp, c.Store(m, b.Arr, nw))
	return
}

func init() {
	intT := types.Typ[types.Int]
	i64T := types.Typ[types.Int64]

	libModels["os.Open"] = func(x *Exec, st *State, e *ast.CallExpr, recv *Val) []Val {
		c := x.c
		name := x.expr(st, e.Args[0])
		f := x.allocRef(st, "file")
		err := x.freshErr(st, "open_err")
		fail := x.ioFail(st, "open")
		x.assume(st, c.Eq(c.Neq(err.T, c.Int(0)), fail))
		x.gset(st, "ghost.fid", f, x.pathID(name.T))
		x.gset(st, "ghost.fpos", f, x.idxLit(0))
		fn, _ := x.calleeFunc(e)
		ft := fn.Type().(*types.Signature).Results().At(0).Type()
		x.assumed["os.Open: returns a file positioned at 0 on the named path, or an error (ghost file system)"] = true
		return []Val{{Typ: ft, T: c.Ite(c.Eq(err.T, c.Int(0)), f, c.Int(0))}, err}
	}
	libMods["os.Open"] = func(x *Exec, ms *modSet, e *ast.CallExpr) {
		ms.add("ghost.brk", SInt)
		ms.add("ghost.fid", SArr(SInt, SInt))
		ms.add("ghost.fpos", SArr(SInt, x.idxSort()))
		ms.add("ghost.iofail", SBool)
	}
	libModels["os.File.Name"] = func(x *Exec, st *State, e *ast.CallExpr, recv *Val) []Val {
		s := x.freshVal(st, "fname", types.Typ[types.String])
		x.assumeGlobal(st, x.c.Eq(x.pathID(s.T), x.gsel(st, "ghost.fid", recv.T)))
		return []Val{s}
	}
	libModels["os.File.Close"] = func(x *Exec, st *State, e *ast.CallExpr, recv *Val) []Val {
		return []Val{x.freshErr(st, "close_err")}
	}
	libModels["os.File.Seek"] = func(x *Exec, st *State, e *ast.CallExpr, recv *Val) []Val {
		off := x.expr(st, e.Args[0])
		wh := x.expr(st, e.Args[1])
		if !wh.T.IsLit() || wh.T.SignedVal().Sign() != 0 {
			x.fail("os.File.Seek: only io.SeekStart is modelled")
		}
		x.nilCheck(st, recv.T, "Seek on nil file")
		x.gset(st, "ghost.fpos", recv.T, x.convertInt(st, off.T, i64T, intT, false))
		x.assumed["os.File.Seek(off, io.SeekStart) sets the file position (errors not modelled)"] = true
		return []Val{off, x.freshErr(st, "seek_err")}
	}
	libMods["os.File.Seek"] = func(x *Exec, ms *modSet, e *ast.CallExpr) {
		ms.addAt("ghost.fpos", SArr(SInt, x.idxSort()), recvExpr(e), x.info)
	}
	libModels["os.File.Stat"] = func(x *Exec, st *State, e *ast.CallExpr, recv *Val) []Val {
		fi := x.allocRef(st, "fileinfo")
		err := x.freshErr(st, "stat_err")
		x.assume(st, x.c.Eq(x.c.Neq(err.T, x.c.Int(0)), x.c.Or(x.ioFail(st, "stat"), x.c.Eq(recv.T, x.c.Int(0)))))
		x.gset(st, "ghost.fisize", fi, x.gsel(st, "ghost.fsize", x.gsel(st, "ghost.fid", recv.T)))
		fn, _ := x.calleeFunc(e)
		ft := fn.Type().(*types.Signature).Results().At(0).Type()
		return []Val{{Typ: ft, T: x.c.Ite(x.c.Eq(err.T, x.c.Int(0)), fi, x.c.Int(0))}, err}
	}
	libMods["os.File.Stat"] = func(x *Exec, ms *modSet, e *ast.CallExpr) {
		ms.add("ghost.brk", SInt)
		ms.add("ghost.fisize", SArr(SInt, x.idxSort()))
	}
	libModels["io/fs.FileInfo.Size"] = func(x *Exec, st *State, e *ast.CallExpr, recv *Val) []Val {
		x.nilCheck(st, recv.T, "Size() on nil FileInfo")
		sz := x.gsel(st, "ghost.fisize", recv.T)
		x.assumeGlobal(st, x.idxLe(x.idxLit(0), sz))
		return []Val{{Typ: i64T, T: x.convertInt(st, sz, intT, i64T, false)}}
	}
	libModels["os.File.ReadAt"] = func(x *Exec, st *State, e *ast.CallExpr, recv *Val) []Val {
		c := x.c
		x.nilCheck(st, recv.T, "ReadAt on nil file")
		b := x.expr(st, e.Args[0])
		off := x.convertInt(st, x.expr(st, e.Args[1]).T, i64T, intT, false)
		id := x.gsel(st, "ghost.fid", recv.T)
		ok, fail, avail := x.fileRead(st, id, off, b, "readat")
		n := x.freshVal(st, "readat_n", intT)
		err := x.freshErr(st, "readat_err")
		zero := x.idxLit(0)
		x.assume(st, c.Eq(c.Eq(err.T, c.Int(0)), ok))
		x.assume(st, c.Implies(ok, c.Eq(n.T, b.Len)))
		x.assume(st, c.And(x.idxLe(zero, n.T), x.idxLe(n.T, b.Len)))
		x.assume(st, c.Implies(c.And(c.Not(ok), c.Not(fail), x.idxLe(zero, avail)), c.Eq(n.T, avail)))
		x.assumed["os.File.ReadAt: reads min(len, size-off) bytes of the ghost file; error iff short or I/O failure"] = true
		return []Val{n, err}
	}
	libMods["os.File.ReadAt"] = func(x *Exec, ms *modSet, e *ast.CallExpr) {
		ms.add(memComp(u8), x.memSort(u8))
		ms.add("ghost.iofail", SBool)
	}

	newReader := func(x *Exec, st *State, e *ast.CallExpr, recv *Val) []Val {
		fd := x.expr(st, e.Args[0])
		for _, a := range e.Args[1:] {
			x.expr(st, a)
		}
		r := x.allocRef(st, "bufreader")
		x.gset(st, "ghost.rfile", r, fd.T)
		x.gset(st, "ghost.rpos", r, x.gsel(st, "ghost.fpos", fd.T))
		fn, _ := x.calleeFunc(e)
		return []Val{{Typ: fn.Type().(*types.Signature).Results().At(0).Type(), T: r}}
	}
	readerMod := func(x *Exec, ms *modSet, e *ast.CallExpr) {
		ms.add("ghost.brk", SInt)
		ms.add("ghost.rfile", SArr(SInt, SInt))
		ms.add("ghost.rpos", SArr(SInt, x.idxSort()))
	}
	libModels["bufio.NewReaderSize"] = newReader
	libModels["bufio.NewReader"] = newReader
	libMods["bufio.NewReaderSize"] = readerMod
	libMods["bufio.NewReader"] = readerMod
	libModels["bufio.Reader.Reset"] = func(x *Exec, st *State, e *ast.CallExpr, recv *Val) []Val {
		fd := x.expr(st, e.Args[0])
		x.nilCheck(st, recv.T, "Reset on nil reader")
		x.gset(st, "ghost.rfile", recv.T, fd.T)
		x.gset(st, "ghost.rpos", recv.T, x.gsel(st, "ghost.fpos", fd.T))
		return nil
	}
	libMods["bufio.Reader.Reset"] = func(x *Exec, ms *modSet, e *ast.CallExpr) {
		ms.addAt("ghost.rfile", SArr(SInt, SInt), recvExpr(e), x.info)
		ms.addAt("ghost.rpos", SArr(SInt, x.idxSort()), recvExpr(e), x.info)
	}
	libModels["bufio.Reader.Discard"] = func(x *Exec, st *State, e *ast.CallExpr, recv *Val) []Val {
		c := x.c
		n := x.toIdx(st, x.expr(st, e.Args[0]))
		x.nilCheck(st, recv.T, "Discard on nil reader")
		pos := x.gsel(st, "ghost.rpos", recv.T)
		size := x.gsel(st, "ghost.fsize", x.gsel(st, "ghost.fid", x.gsel(st, "ghost.rfile", recv.T)))
		fail := x.ioFail(st, "discard")
		rem := x.idxSub(size, pos)
		d := c.Ite(x.idxLe(n, rem), n, c.Ite(x.idxLe(x.idxLit(0), rem), rem, x.idxLit(0)))
		got := x.freshVal(st, "discarded", intT)
		x.assume(st, c.Implies(c.Not(fail), c.Eq(got.T, d)))
		x.assume(st, c.And(x.idxLe(x.idxLit(0), got.T), x.idxLe(got.T, n)))
		x.gset(st, "ghost.rpos", recv.T, x.idxAdd(pos, got.T))
		err := x.freshErr(st, "discard_err")
		x.assume(st, c.Eq(c.Eq(err.T, c.Int(0)), c.Eq(got.T, n)))
		return []Val{got, err}
	}
	libMods["bufio.Reader.Discard"] = func(x *Exec, ms *modSet, e *ast.CallExpr) {
		ms.addAt("ghost.rpos", SArr(SInt, x.idxSort()), recvExpr(e), x.info)
		ms.add("ghost.iofail", SBool)
	}
	// ReadString / ReadByte on a buffered reader: what matters to callers is how far the reader
	// advances; the content is any string / byte (the source may be a network connection)
	libModels["bufio.Reader.ReadString"] = func(x *Exec, st *State, e *ast.CallExpr, recv *Val) []Val {
		c := x.c
		x.expr(st, e.Args[0])
		x.nilCheck(st, recv.T, "ReadString on nil reader")
		s := x.freshVal(st, "readstring", types.Typ[types.String])
		err := x.freshErr(st, "readstring_err")
		x.readerErr(st, recv.T, err.T, "readstring")
		n := c.App("str_len", s.T)
		x.assume(st, x.idxLe(x.idxLit(0), n))
		x.assume(st, c.Implies(c.Eq(err.T, c.Int(0)), x.idxLe(x.idxLit(1), n)))
		pos := x.gsel(st, "ghost.rpos", recv.T)
		x.gset(st, "ghost.rpos", recv.T, x.idxAdd(pos, n))
		x.assumed["bufio.Reader.ReadString: any string (at least the delimiter when err == nil), the reader advances by its length"] = true
		return []Val{s, err}
	}
	libMods["bufio.Reader.ReadString"] = func(x *Exec, ms *modSet, e *ast.CallExpr) {
		ms.addAt("ghost.rpos", SArr(SInt, x.idxSort()), recvExpr(e), x.info)
		ms.addAt("ghost.rended", SArr(SInt, SBool), recvExpr(e), x.info)
		ms.add("ghost.iofail", SBool)
	}
	libModels["bufio.Reader.ReadByte"] = func(x *Exec, st *State, e *ast.CallExpr, recv *Val) []Val {
		c := x.c
		x.nilCheck(st, recv.T, "ReadByte on nil reader")
		b := x.freshVal(st, "readbyte", u8)
		err := x.freshErr(st, "readbyte_err")
		x.readerErr(st, recv.T, err.T, "readbyte")
		pos := x.gsel(st, "ghost.rpos", recv.T)
		x.gset(st, "ghost.rpos", recv.T, c.Ite(c.Eq(err.T, c.Int(0)), x.idxAdd(pos, x.idxLit(1)), pos))
		x.assumed["bufio.Reader.ReadByte: any byte or any error; the reader advances by one on success"] = true
		return []Val{b, err}
	}
	libMods["bufio.Reader.ReadByte"] = func(x *Exec, ms *modSet, e *ast.CallExpr) {
		ms.addAt("ghost.rpos", SArr(SInt, x.idxSort()), recvExpr(e), x.info)
		ms.addAt("ghost.rended", SArr(SInt, SBool), recvExpr(e), x.info)
		ms.add("ghost.iofail", SBool)
	}
	libModels["io.ReadFull"] = func(x *Exec, st *State, e *ast.CallExpr, recv *Val) []Val {
		c := x.c
		r := x.expr(st, e.Args[0])
		b := x.expr(st, e.Args[1])
		x.nilCheck(st, r.T, "io.ReadFull on nil reader")
		pos := x.gsel(st, "ghost.rpos", r.T)
		id := x.gsel(st, "ghost.fid", x.gsel(st, "ghost.rfile", r.T))
		ok, fail, avail := x.fileRead(st, id, pos, b, "readfull")
		eof, ueof := x.ioSentinels(st)
		n := x.freshVal(st, "readfull_n", intT)
		err := x.freshErr(st, "readfull_err")
		zero := x.idxLit(0)
		x.assume(st, c.Eq(c.Eq(err.T, c.Int(0)), ok))
		x.assume(st, c.Implies(ok, c.Eq(n.T, b.Len)))
		x.assume(st, c.And(x.idxLe(zero, n.T), x.idxLe(n.T, b.Len)))
		short := c.And(c.Not(ok), c.Not(fail))
		x.assume(st, c.Implies(c.And(short, x.idxLe(avail, zero)), c.And(c.Eq(err.T, eof), c.Eq(n.T, zero))))
		x.assume(st, c.Implies(c.And(short, x.idxLt(zero, avail)), c.And(c.Eq(err.T, ueof), c.Eq(n.T, avail))))
		x.assume(st, c.Implies(fail, c.And(c.Neq(err.T, eof), c.Neq(err.T, ueof))))
		x.gset(st, "ghost.rpos", r.T, x.idxAdd(pos, n.T))
		x.gset(st, "ghost.rended", r.T, c.Or(x.gsel(st, "ghost.rended", r.T), short))
		x.assumed["io.ReadFull on a bufio.Reader: delivers the next len(buf) bytes of the ghost file at the reader's position; io.EOF iff nothing left, io.ErrUnexpectedEOF iff partly"] = true
		return []Val{n, err}
	}
	libMods["io.ReadFull"] = func(x *Exec, ms *modSet, e *ast.CallExpr) {
		ms.add(memComp(u8), x.memSort(u8))
		ms.addAt("ghost.rpos", SArr(SInt, x.idxSort()), e.Args[0], x.info)
		ms.addAt("ghost.rended", SArr(SInt, SBool), e.Args[0], x.info)
		ms.add("ghost.iofail", SBool)
		ms.add("G.io.EOF", SInt)
	}

	write := func(x *Exec, st *State, e *ast.CallExpr, recv *Val) []Val {
		c := x.c
		b := x.expr(st, e.Args[0])
		if isString(x.typeOf(e.Args[0])) {
			// WriteString: the bytes of the string
			arr := x.allocRef(st, "strbytes")
			comp := memComp(u8)
			m := x.heapGet(st, comp, x.memSort(u8))
			x.heapSet(st, comp, c.Store(m, arr, c.App("str_bytes", b.T)))
			n := c.App("str_len", b.T)
			b = Val{Typ: types.NewSlice(u8), Arr: arr, Off: x.idxLit(0), Len: n, Cap: n}
		}
		x.nilCheck(st, recv.T, "Write on nil writer")
		fail := x.ioFail(st, "write")
		wl := x.gsel(st, "ghost.wlen", recv.T)
		x.assumeGlobal(st, c.And(x.idxLe(x.idxLit(0), wl), x.idxLe(wl, x.idxBig())))
		old := x.gsel(st, "ghost.wdata", recv.T)
		nw := c.Fresh("wdata", old.sort)
		n := x.freshVal(st, "write_n", intT)
		err := x.freshErr(st, "write_err")
		m := x.heapGet(st, memComp(u8), x.memSort(u8))
		src := c.Select(m, b.Arr)
		j := c.Bound("j", x.idxSort())
		// bytes before the old length never change; on success the new bytes are appended
		x.assumeGlobal(st, c.Forall([]*Term{j}, c.Implies(x.idxLt(j, wl), c.Eq(c.Select(nw, j), c.Select(old, j))), []*Term{c.Select(nw, j)}))
		x.assume(st, c.Implies(c.Not(fail), c.Forall([]*Term{j}, c.Implies(c.And(x.idxLe(wl, j), x.idxLt(j, x.idxAdd(wl, b.Len))),
			c.Eq(c.Select(nw, j), c.Select(src, x.idxAdd(b.Off, x.idxSub(j, wl))))), []*Term{c.Select(nw, j)})))
		x.assume(st, c.Eq(c.Eq(err.T, c.Int(0)), c.Not(fail)))
		x.assume(st, c.Implies(c.Not(fail), c.Eq(n.T, b.Len)))
		x.assume(st, c.And(x.idxLe(x.idxLit(0), n.T), x.idxLe(n.T, b.Len)))
		x.gset(st, "ghost.wdata", recv.T, nw)
		x.gset(st, "ghost.wlen", recv.T, x.idxAdd(wl, n.T))
		x.assumed["Write on io.Writer/bufio.Writer/bytes.Buffer: appends to a ghost byte stream, or fails (then a prefix may have been written)"] = true
		return []Val{n, err}
	}
	writeMod := func(x *Exec, ms *modSet, e *ast.CallExpr) {
		ms.addAt("ghost.wdata", SArr(SInt, SArr(x.idxSort(), x.byteSort())), recvExpr(e), x.info)
		ms.addAt("ghost.wlen", SArr(SInt, x.idxSort()), recvExpr(e), x.info)
		ms.add("ghost.iofail", SBool)
	}
	for _, k := range []string{"io.Writer.Write", "bufio.Writer.Write", "bytes.Buffer.Write", "bufio.Writer.WriteString", "bytes.Buffer.WriteString"} {
		libModels[k] = write
		libMods[k] = writeMod
	}
	// Flush: on success everything written so far has been handed to the underlying writer
	// (ghost.wflushed = length of the flushed prefix of the stream)
	libModels["bufio.Writer.Flush"] = func(x *Exec, st *State, e *ast.CallExpr, recv *Val) []Val {
		c := x.c
		x.nilCheck(st, recv.T, "Flush on nil writer")
		fail := x.ioFail(st, "flush")
		err := x.freshErr(st, "flush_err")
		x.assume(st, c.Eq(c.Eq(err.T, c.Int(0)), c.Not(fail)))
		wl := x.gsel(st, "ghost.wlen", recv.T)
		fl := x.gsel(st, "ghost.wflushed", recv.T)
		x.gset(st, "ghost.wflushed", recv.T, c.Ite(fail, fl, wl))
		return []Val{err}
	}
	libMods["bufio.Writer.Flush"] = func(x *Exec, ms *modSet, e *ast.CallExpr) {
		ms.addAt("ghost.wflushed", SArr(SInt, x.idxSort()), recvExpr(e), x.info)
		ms.add("ghost.iofail", SBool)
	}
}

// ghost accessors usable in clauses (declared in the package's contract file)
func registerGhostIO(e *Engine) {
	intT := types.Typ[types.Int]
	g := e.ghostFuncs
	g["ioFailed"] = func(x *Exec, st *State, e *ast.CallExpr) []Val {
		return []Val{{Typ: types.Typ[types.Bool], T: x.gcomp(st, "ghost.iofail")}}
	}
	g["envFailed"] = g["ioFailed"]
	fileID := func(x *Exec, st *State, a ast.Expr) *Term {
		f := x.expr(st, a)
		if x.isFileParam(f.T) {
			return f.T // inside a spec function a file parameter is its file id
		}
		return x.gsel(st, "ghost.fid", f.T)
	}
	g["fileSize"] = func(x *Exec, st *State, e *ast.CallExpr) []Val {
		sz := x.gsel(st, "ghost.fsize", fileID(x, st, e.Args[0]))
		if x.inQuant == 0 && !x.specMode {
			x.assumeGlobal(st, x.c.And(x.idxLe(x.idxLit(0), sz), x.idxLe(sz, x.idxBig())))
		}
		return []Val{{Typ: intT, T: sz}}
	}
	g["pathFileSize"] = func(x *Exec, st *State, e *ast.CallExpr) []Val { // size of the file at a path
		p := x.expr(st, e.Args[0])
		return []Val{{Typ: intT, T: x.gsel(st, "ghost.fsize", x.pathID(p.T))}}
	}
	g["fileByte"] = func(x *Exec, st *State, e *ast.CallExpr) []Val {
		i := x.toIdx(st, x.expr(st, e.Args[1]))
		return []Val{{Typ: u8, T: x.c.Select(x.gsel(st, "ghost.fdata", fileID(x, st, e.Args[0])), i)}}
	}
	g["filePos"] = func(x *Exec, st *State, e *ast.CallExpr) []Val {
		f := x.expr(st, e.Args[0])
		return []Val{{Typ: intT, T: x.gsel(st, "ghost.fpos", f.T)}}
	}
	g["sameFile"] = func(x *Exec, st *State, e *ast.CallExpr) []Val {
		return []Val{{Typ: types.Typ[types.Bool], T: x.c.Eq(fileID(x, st, e.Args[0]), fileID(x, st, e.Args[1]))}}
	}
	g["fileValidAt"] = func(x *Exec, st *State, e *ast.CallExpr) []Val {
		id := fileID(x, st, e.Args[0])
		off := x.toIdx(st, x.expr(st, e.Args[1]))
		t := x.uninterp("ghost_validAt_"+x.mode, SBool, x.gsel(st, "ghost.fdata", id), x.gsel(st, "ghost.fsize", id), off)
		return []Val{{Typ: types.Typ[types.Bool], T: t}}
	}
	g["readerPos"] = func(x *Exec, st *State, e *ast.CallExpr) []Val {
		r := x.expr(st, e.Args[0])
		return []Val{{Typ: intT, T: x.gsel(st, "ghost.rpos", r.T)}}
	}
	g["readerOn"] = func(x *Exec, st *State, e *ast.CallExpr) []Val { // readerOn(r, f): r reads from file f
		r := x.expr(st, e.Args[0])
		f := x.expr(st, e.Args[1])
		return []Val{{Typ: types.Typ[types.Bool], T: x.c.Eq(x.gsel(st, "ghost.fid", x.gsel(st, "ghost.rfile", r.T)), x.gsel(st, "ghost.fid", f.T))}}
	}
	g["streamLen"] = func(x *Exec, st *State, e *ast.CallExpr) []Val {
		w := x.expr(st, e.Args[0])
		return []Val{{Typ: intT, T: x.gsel(st, "ghost.wlen", w.T)}}
	}
	g["inputEnded"] = func(x *Exec, st *State, e *ast.CallExpr) []Val { // the reader hit the end of its input (sticky)
		r := x.expr(st, e.Args[0])
		return []Val{{Typ: types.Typ[types.Bool], T: x.gsel(st, "ghost.rended", r.T)}}
	}
	g["streamFlushed"] = func(x *Exec, st *State, e *ast.CallExpr) []Val {
		w := x.expr(st, e.Args[0])
		return []Val{{Typ: intT, T: x.gsel(st, "ghost.wflushed", w.T)}}
	}
	g["streamByte"] = func(x *Exec, st *State, e *ast.CallExpr) []Val {
		w := x.expr(st, e.Args[0])
		i := x.toIdx(st, x.expr(st, e.Args[1]))
		return []Val{{Typ: u8, T: x.c.Select(x.gsel(st, "ghost.wdata", w.T), i)}}
	}
}

// idxBig: 2^62, an upper bound assumed for file sizes and stream lengths (no int overflow in offset arithmetic)
func (x *Exec) idxBig() *Term {
	if x.mode == "bv" {
		return x.c.BV(64, bigPow2(62))
	}
	return x.c.IntBig(bigPow2(62))
}

// recvExpr: the receiver expression of a method call.
func recvExpr(e *ast.CallExpr) ast.Expr {
	if se, ok := ast.Unparen(e.Fun).(*ast.SelectorExpr); ok {
		return se.X
	}
	return nil
}

// readerErr: a read on a buffered reader reports an error exactly when the environment failed
// (sticky ghost.iofail) or the input ended (sticky per reader, ghost.rended).
func (x *Exec) readerErr(st *State, r, err *Term, what string) {
	c := x.c
	fail := x.ioFail(st, what)
	ended := c.Fresh("ended_"+what, SBool)
	x.assume(st, c.Eq(c.Neq(err, c.Int(0)), c.Or(fail, ended)))
	x.gset(st, "ghost.rended", r, c.Or(x.gsel(st, "ghost.rended", r), ended))
}
