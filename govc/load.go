package main

// Loading /repo (with -tags verif) and reading the contract files.

import (
	"fmt"
	"go/ast"
	"go/constant"
	"go/parser"
	"go/token"
	"go/types"
	"math/big"
	"os"
	"path/filepath"
	"regexp"
	"sort"
	"strconv"
	"strings"
	"sync"

	"golang.org/x/tools/go/packages"
)

const repoModule = "github.com/douban/gobeansdb"

var repoRoots = []string{"./store", "./memcache", "./cmem", "./gobeansdb", "./utils", "./config", "./quicklz"}

type Program struct {
	Fset      *token.FileSet
	Pkgs      map[string]*packages.Package // by short name (store, memcache, ...)
	ByPath    map[string]*packages.Package
	Contracts map[string]*Contract // key: pkgshort.Recv.Name or pkgshort.Name
	Order     []string
	Decls     map[string]*ast.FuncDecl // same keys, for every function in the loaded packages
	DeclPkg   map[string]*packages.Package
	RepoDir   string
	Lemmas    []string

	modeDepMu    sync.Mutex
	modeDepCache map[*Clause]string
}

type Clause struct {
	Kind  string // requires, ensures, invariant, assert, ...
	Text  string
	Expr  ast.Expr
	Info  *types.Info
	Olds  map[ast.Expr]bool // parenthesised sub-expressions that stood inside old(...)
	Extra map[string]*types.Var
	Real  map[string]types.Object // wrapper parameter name -> object of the real function
	Name  string                  // e.g. ensures#2
	Line  int
	Pkg   *packages.Package
	Tags  []string // property tags limiting the clause, if any
}

type LoopSpec struct {
	Ordinal    int
	Invariants []*Clause
	Unroll     bool
	Decreases  *Clause
}

type CallSpec struct {
	Callee  string
	Ordinal int // 0 = all
	Asserts []*Clause
}

type Contract struct {
	Key        string
	Variant    string // non-empty: an additional contract of the function, verified against the body only; call sites use the main contract (callers are not checked against this variant's requires: listed as an assumption)
	Pkg        *packages.Package
	Fn         *types.Func
	Decl       *ast.FuncDecl
	Ints       string
	Props      []string
	Requires   []*Clause
	Ensures    []*Clause
	Modifies   []*Clause
	ModAll     bool // "modifies *": anything reachable may change (no frame obligation, callers havoc everything)
	Loops      map[int]*LoopSpec
	Calls      []*CallSpec
	Assumed    string // non-empty: body is not verified; reason
	Inline     bool
	Opaque     map[string]bool
	Reveal     map[string]bool
	MayPanic   bool
	NoSafety   bool
	Uninterp   bool // spec function treated as an uninterpreted function of its arguments
	UnreachableOK string // non-empty: return sites proved unreachable are expected (reason)
	Modeless    string // spec predicate declared to mean the same over machine and mathematical integers (assumption)
	ReliableIO  bool // file operations do not fail for environmental reasons in this function (assumption)
	AbstractMul bool // multiplication of two non-literals is an uninterpreted function in this function's obligations (sound: weaker)
	NoOverflow bool // math mode: arithmetic of this function is assumed not to overflow (recorded as an assumption)
	Lemma      bool
	Line       int
	File       string
	raw        []rawClause
	bindErr    error
	bound      bool
	Timeout    int
	Pure       bool
	Enums      []enumSpec
	Ghosts    []*GhostStmt
	Decreases *Clause
}

// GhostStmt: a ghost call (usually a lemma application) executed at an anchor of the function.
type GhostStmt struct {
	Anchor string // entry | return | after
	Callee string // for after: name of the called function
	Ord    int    // for after: k-th call (1-based) in source order
	Clause *Clause
}

type enumSpec struct {
	Expr string
	Vals []int64
}

type rawClause struct {
	kind string
	text string
	line int
}

func funcKey(pkgShort, recv, name string) string {
	if recv != "" {
		return pkgShort + "." + recv + "." + name
	}
	return pkgShort + "." + name
}

func declKey(pkgShort string, d *ast.FuncDecl) string {
	recv := ""
	if d.Recv != nil && len(d.Recv.List) > 0 {
		t := d.Recv.List[0].Type
		if s, ok := t.(*ast.StarExpr); ok {
			t = s.X
		}
		if id, ok := t.(*ast.Ident); ok {
			recv = id.Name
		}
	}
	return funcKey(pkgShort, recv, d.Name.Name)
}

func fnKey(fn *types.Func) string {
	if fn.Pkg() == nil {
		return fn.Name()
	}
	short := fn.Pkg().Name()
	if !strings.HasPrefix(fn.Pkg().Path(), repoModule) {
		short = fn.Pkg().Path()
	}
	sig := fn.Type().(*types.Signature)
	recv := ""
	if sig.Recv() != nil {
		t := sig.Recv().Type()
		if p, ok := t.(*types.Pointer); ok {
			t = p.Elem()
		}
		if n, ok := t.(*types.Named); ok {
			recv = n.Obj().Name()
		}
	}
	return funcKey(short, recv, fn.Name())
}

func LoadProgram(repo string) (*Program, error) {
	cfg := &packages.Config{
		Mode: packages.NeedName | packages.NeedFiles | packages.NeedCompiledGoFiles | packages.NeedSyntax |
			packages.NeedTypes | packages.NeedTypesInfo | packages.NeedImports | packages.NeedDeps | packages.NeedTypesSizes,
		Dir:        repo,
		BuildFlags: []string{"-tags=verif"},
		Env:        append(os.Environ(), "GOFLAGS=-mod=mod", "GOPROXY=off", "GOSUMDB=off", "GOTOOLCHAIN=local"),
		ParseFile: func(fset *token.FileSet, filename string, src []byte) (*ast.File, error) {
			return parser.ParseFile(fset, filename, src, parser.ParseComments|parser.SkipObjectResolution)
		},
	}
	pkgs, err := packages.Load(cfg, repoRoots...)
	if err != nil {
		return nil, err
	}
	p := &Program{Pkgs: map[string]*packages.Package{}, ByPath: map[string]*packages.Package{}, Contracts: map[string]*Contract{},
		Decls: map[string]*ast.FuncDecl{}, DeclPkg: map[string]*packages.Package{}, RepoDir: repo}
	var errs []string
	for _, pkg := range pkgs {
		for _, e := range pkg.Errors {
			errs = append(errs, e.Error())
		}
		p.Pkgs[pkg.Name] = pkg
		p.ByPath[pkg.PkgPath] = pkg
		p.Fset = pkg.Fset
		for _, f := range pkg.Syntax {
			for _, d := range f.Decls {
				if fd, ok := d.(*ast.FuncDecl); ok {
					k := declKey(pkg.Name, fd)
					p.Decls[k] = fd
					p.DeclPkg[k] = pkg
				}
			}
		}
	}
	if len(errs) > 0 {
		return nil, fmt.Errorf("load errors: %s", strings.Join(errs, "; "))
	}
	for _, pkg := range pkgs {
		if err := p.readContracts(pkg); err != nil {
			return nil, err
		}
	}
	sort.Strings(p.Order)
	return p, nil
}

// optional third group: `func (t *T) m variant <name>` — an additional contract of the same function
// that is only verified against the body, never used at call sites (see Contract.Variant)
var reFuncHdr = regexp.MustCompile(`^func\s+(?:\(\s*(?:\w+\s+)?\*?(\w+)\s*\)\s*)?(\w+)(?:\s+variant\s+(\w+))?\s*$`)

func (p *Program) readContracts(pkg *packages.Package) error {
	for i, f := range pkg.Syntax {
		name := pkg.CompiledGoFiles[i]
		if isContractFile(name) {
			if err := p.readContractFile(pkg, f, name); err != nil {
				return err
			}
		}
	}
	return nil
}

func isContractFile(name string) bool {
	b := filepath.Base(name)
	return strings.HasPrefix(b, "verif_contracts") && strings.HasSuffix(b, ".go")
}

func (p *Program) readContractFile(pkg *packages.Package, file *ast.File, fname string) error {
	var cur *Contract
	flush := func() {}
	_ = flush
	var pending string
	var pendingLine int
	for _, cg := range file.Comments {
		for _, cm := range cg.List {
			txt := cm.Text
			if !strings.HasPrefix(txt, "//@") {
				continue
			}
			line := p.Fset.Position(cm.Pos()).Line
			body := strings.TrimSpace(txt[3:])
			if pending != "" {
				body = pending + " " + body
				line = pendingLine
				pending = ""
			}
			if strings.HasSuffix(body, "\\") {
				pending = strings.TrimSpace(strings.TrimSuffix(body, "\\"))
				pendingLine = line
				continue
			}
			if body == "" {
				continue
			}
			if i := strings.Index(body, " //"); i >= 0 { // trailing comment
				body = strings.TrimSpace(body[:i])
			}
			if strings.HasPrefix(body, "func ") || strings.HasPrefix(body, "lemma ") {
				isLemma := strings.HasPrefix(body, "lemma ")
				hdr := body
				if isLemma {
					hdr = "func " + strings.TrimPrefix(body, "lemma ")
				}
				m := reFuncHdr.FindStringSubmatch(hdr)
				if m == nil {
					return fmt.Errorf("%s:%d: bad contract header %q", fname, line, body)
				}
				key := funcKey(pkg.Name, m[1], m[2])
				decl := p.Decls[key]
				var fn *types.Func
				if decl == nil && m[1] != "" {
					// a method of an interface type: no body, the contract can only be assumed; it is
					// used at calls through the interface
					if tn, ok := pkg.Types.Scope().Lookup(m[1]).(*types.TypeName); ok {
						if it, ok := tn.Type().Underlying().(*types.Interface); ok {
							for i := 0; i < it.NumMethods(); i++ {
								if it.Method(i).Name() == m[2] {
									fn = it.Method(i)
								}
							}
						}
					}
					if fn != nil {
						decl = &ast.FuncDecl{Name: ast.NewIdent(m[2]), Type: &ast.FuncType{Params: &ast.FieldList{}}, Body: &ast.BlockStmt{}}
					}
				}
				if decl == nil {
					return &BindError{fmt.Sprintf("%s:%d: contract for unknown function %s", fname, line, key)}
				}
				if fn == nil {
					fn, _ = pkg.TypesInfo.Defs[decl.Name].(*types.Func)
				}
				if fn == nil {
					return &BindError{fmt.Sprintf("%s:%d: no type information for %s", fname, line, key)}
				}
				if m[3] != "" {
					key = key + "~" + m[3]
				}
				if _, dup := p.Contracts[key]; dup {
					return fmt.Errorf("%s:%d: duplicate contract for %s", fname, line, key)
				}
				cur = &Contract{Variant: m[3], Key: key, Pkg: pkg, Fn: fn, Decl: decl, Ints: "bv", Loops: map[int]*LoopSpec{}, Opaque: map[string]bool{}, Reveal: map[string]bool{}, Line: line, File: fname, Lemma: isLemma}
				p.Contracts[key] = cur
				p.Order = append(p.Order, key)
				continue
			}
			if cur == nil {
				return fmt.Errorf("%s:%d: clause outside a func block: %q", fname, line, body)
			}
			kind := body
			rest := ""
			if i := strings.IndexAny(body, " \t"); i >= 0 {
				kind, rest = body[:i], strings.TrimSpace(body[i+1:])
			}
			cur.raw = append(cur.raw, rawClause{kind, rest, line})
		}
	}
	return nil
}

// rawDirective: text of a directive of the (possibly unbound) contract; ok=false if absent.
func (c *Contract) rawDirective(kind string) (string, bool) {
	for _, rc := range c.raw {
		if rc.kind == kind {
			return rc.text, true
		}
	}
	return "", false
}

// BindError: the contract cannot be bound to the code (UNDECIDED, not a violation).
type BindError struct{ Msg string }

func (e *BindError) Error() string { return e.Msg }

// Bind parses and type-checks the clauses of one contract.
func (p *Program) Bind(c *Contract) error {
	if c.bound {
		return c.bindErr
	}
	c.bound = true
	c.bindErr = p.bind(c)
	return c.bindErr
}

func (p *Program) bind(c *Contract) error {
	raw := c.raw
	sig := c.Fn.Type().(*types.Signature)
	loops := collectLoops(c.Decl)
	nReq, nEns := 0, 0
	for _, rc := range raw {
		switch rc.kind {
		case "ints":
			if rc.text != "bv" && rc.text != "math" && rc.text != "both" {
				return fmt.Errorf("%s:%d: ints bv|math|both", c.File, rc.line)
			}
			c.Ints = rc.text
		case "props":
			c.Props = append(c.Props, strings.Fields(rc.text)...)
		case "assumed":
			c.Assumed = rc.text
			if c.Assumed == "" {
				c.Assumed = "assumed"
			}
		case "inline":
			c.Inline = true
		case "pure":
			c.Pure = true
		case "opaque":
			for _, f := range strings.Fields(rc.text) {
				c.Opaque[f] = true
			}
		case "reveal":
			for _, f := range strings.Fields(rc.text) {
				c.Reveal[f] = true
			}
		case "may_panic":
			c.MayPanic = true
		case "nosafety":
			c.NoSafety = true
		case "nooverflow":
			c.NoOverflow = true
		case "abstract_mul":
			c.AbstractMul = true
		case "reliable_io":
			c.ReliableIO = true
		case "modeless":
			c.Modeless = rc.text
		case "unreachable_ok":
			c.UnreachableOK = rc.text
			if c.UnreachableOK == "" {
				c.UnreachableOK = "some return sites are dead under the contract's preconditions"
			}
		case "uninterpreted":
			c.Uninterp = true
			c.Assumed = "uninterpreted ghost function: " + rc.text
		case "timeout":
			c.Timeout, _ = strconv.Atoi(rc.text)
		case "enumerate":
			// enumerate <expr> in v1 v2 ...
			parts := strings.SplitN(rc.text, " in ", 2)
			if len(parts) != 2 {
				return fmt.Errorf("%s:%d: enumerate <expr> in v1 v2 ...", c.File, rc.line)
			}
			es := enumSpec{Expr: strings.TrimSpace(parts[0])}
			for _, f := range strings.Fields(parts[1]) {
				v, err := strconv.ParseInt(f, 0, 64)
				if err != nil {
					return fmt.Errorf("%s:%d: %v", c.File, rc.line, err)
				}
				es.Vals = append(es.Vals, v)
			}
			c.Enums = append(c.Enums, es)
		case "requires":
			nReq++
			cl, err := p.bindClause(c, rc, c.Decl.Body.Lbrace+1, sig, false, fmt.Sprintf("requires#%d", nReq))
			if err != nil {
				return err
			}
			c.Requires = append(c.Requires, cl)
		case "ensures":
			nEns++
			pos := token.NoPos
			if c.Decl.Body != nil {
				pos = c.Decl.Body.Lbrace + 1
			}
			cl, err := p.bindClause(c, rc, pos, sig, true, fmt.Sprintf("ensures#%d", nEns))
			if err != nil {
				return err
			}
			c.Ensures = append(c.Ensures, cl)
		case "modifies":
			if strings.TrimSpace(rc.text) == "*" {
				c.ModAll = true
				continue
			}
			for _, part := range splitTopLevel(rc.text, ',') {
				rc2 := rawClause{"modifies", strings.TrimSpace(part), rc.line}
				cl, err := p.bindClauseTyped(c, rc2, c.Decl.Body.Lbrace+1, sig, false, "modifies", false)
				if err != nil {
					return err
				}
				c.Modifies = append(c.Modifies, cl)
			}
		case "decreases":
			cl, err := p.bindClauseTyped(c, rc, c.Decl.Body.Lbrace+1, sig, false, "decreases", false)
			if err != nil {
				return err
			}
			c.Decreases = cl
		case "ghost":
			// ghost entry: call | ghost return: call | ghost after Callee#k: call
			i := strings.Index(rc.text, ":")
			if i < 0 {
				return fmt.Errorf("%s:%d: ghost <anchor>: <call>", c.File, rc.line)
			}
			anchor := strings.Fields(strings.TrimSpace(rc.text[:i]))
			callText := strings.TrimSpace(rc.text[i+1:])
			g := &GhostStmt{}
			pos := c.Decl.Body.Lbrace + 1
			switch {
			case len(anchor) == 1 && (anchor[0] == "entry" || anchor[0] == "return"):
				g.Anchor = anchor[0]
				if g.Anchor == "return" {
					pos = c.Decl.Body.Rbrace
				}
			case len(anchor) == 2 && anchor[0] == "after":
				g.Anchor = "after"
				parts := strings.SplitN(anchor[1], "#", 2)
				g.Callee = parts[0]
				g.Ord = 1
				if len(parts) == 2 {
					g.Ord, _ = strconv.Atoi(parts[1])
				}
				n := 0
				ast.Inspect(c.Decl.Body, func(nd ast.Node) bool {
					if call, ok := nd.(*ast.CallExpr); ok && calleeName(call) == g.Callee {
						n++
						if n == g.Ord || (g.Ord == 0 && n == 1) {
							// `#all` (Ord 0): after every executed call of the callee (all iterations
							// of an unrolled loop); type-checked in the scope of the first call site
							pos = call.End()
						}
					}
					return true
				})
				if n < g.Ord {
					return &BindError{fmt.Sprintf("%s:%d: %s has no call %s#%d", c.File, rc.line, c.Key, g.Callee, g.Ord)}
				}
			default:
				return fmt.Errorf("%s:%d: unknown ghost anchor %q", c.File, rc.line, rc.text[:i])
			}
			cl, err := p.bindClauseTyped(c, rawClause{"ghost", callText, rc.line}, pos, sig, g.Anchor == "return", fmt.Sprintf("ghost#%d", len(c.Ghosts)+1), false)
			if err != nil {
				return err
			}
			g.Clause = cl
			c.Ghosts = append(c.Ghosts, g)
		case "loop":
			// loop N invariant E | loop N unroll | loop N decreases E
			f := strings.Fields(rc.text)
			if len(f) < 2 {
				return fmt.Errorf("%s:%d: bad loop clause", c.File, rc.line)
			}
			n, err := strconv.Atoi(f[0])
			if err != nil || n < 1 {
				return fmt.Errorf("%s:%d: bad loop ordinal", c.File, rc.line)
			}
			if n > len(loops) {
				return &BindError{fmt.Sprintf("%s:%d: %s has no loop %d", c.File, rc.line, c.Key, n)}
			}
			ls := c.Loops[n]
			if ls == nil {
				ls = &LoopSpec{Ordinal: n}
				c.Loops[n] = ls
			}
			rest := strings.TrimSpace(strings.TrimPrefix(strings.TrimSpace(rc.text), f[0]))
			switch f[1] {
			case "unroll":
				ls.Unroll = true
			case "invariant":
				rest = strings.TrimSpace(strings.TrimPrefix(rest, "invariant"))
				pos := loopBodyPos(loops[n-1])
				cl, err := p.bindClause(c, rawClause{"invariant", rest, rc.line}, pos, sig, false, fmt.Sprintf("loop%d.inv#%d", n, len(ls.Invariants)+1))
				if err != nil {
					return err
				}
				ls.Invariants = append(ls.Invariants, cl)
			default:
				return fmt.Errorf("%s:%d: unknown loop clause %q", c.File, rc.line, f[1])
			}
		default:
			return fmt.Errorf("%s:%d: unknown clause kind %q", c.File, rc.line, rc.kind)
		}
	}
	return nil
}

func splitTopLevel(s string, sep rune) []string {
	var out []string
	depth := 0
	last := 0
	for i, r := range s {
		switch r {
		case '(', '[', '{':
			depth++
		case ')', ']', '}':
			depth--
		default:
			if r == sep && depth == 0 {
				out = append(out, s[last:i])
				last = i + 1
			}
		}
	}
	out = append(out, s[last:])
	return out
}

func collectLoops(d *ast.FuncDecl) []ast.Stmt {
	var out []ast.Stmt
	if d.Body == nil {
		return nil
	}
	ast.Inspect(d.Body, func(n ast.Node) bool {
		switch n.(type) {
		case *ast.ForStmt, *ast.RangeStmt:
			out = append(out, n.(ast.Stmt))
		case *ast.FuncLit:
			// loops inside closures are numbered too (closures are inlined)
		}
		return true
	})
	return out
}

func loopBodyPos(s ast.Stmt) token.Pos {
	switch l := s.(type) {
	case *ast.ForStmt:
		return l.Body.Lbrace + 1
	case *ast.RangeStmt:
		return l.Body.Lbrace + 1
	}
	return token.NoPos
}

var reOld = regexp.MustCompile(`\bold\(`)

func (p *Program) bindClause(c *Contract, rc rawClause, pos token.Pos, sig *types.Signature, post bool, name string) (*Clause, error) {
	cl, err := p.bindClauseTyped(c, rc, pos, sig, post, name, true)
	return cl, err
}

// bindClauseTyped: parse the clause text as a Go expression, remove the sugar, type-check it at pos.
var bindMu sync.Mutex

func (p *Program) bindClauseTyped(c *Contract, rc rawClause, pos token.Pos, sig *types.Signature, post bool, name string, wantBool bool) (*Clause, error) {
	bindMu.Lock()
	defer bindMu.Unlock()
	text := rc.text
	var tags []string
	for strings.HasPrefix(text, "[") {
		j := strings.Index(text, "]")
		if j < 0 {
			break
		}
		tags = append(tags, strings.Fields(text[1:j])...)
		text = strings.TrimSpace(text[j+1:])
	}
	text = strings.ReplaceAll(text, "$index", "__index")
	text = strings.ReplaceAll(text, "$value", "__value")
	text = desugarImplies(text)
	// old(e) -> (e) with a marker: we use a call to the identifier __old which is declared as an
	// extra parameter of function type per use; simpler: replace by __old_N(e) where __old_N is
	// handled at translation. To keep expressions well typed we replace old(e) by (e) and remember
	// the offset of the opening parenthesis.
	var oldOffsets []int
	for {
		loc := reOld.FindStringIndex(text)
		if loc == nil {
			break
		}
		text = text[:loc[0]] + text[loc[0]+3:] // drop "old", keep "("
		oldOffsets = append(oldOffsets, loc[0])
	}
	// The clause is type-checked inside a wrapper function literal at file scope of the contract
	// file (so that the imports of that file are visible). Receiver, parameters, named results and
	// the locals in scope at pos become parameters of the wrapper, bound back by name.
	var params []string
	extra := map[string]*types.Var{}
	real := map[string]types.Object{}
	qual := func(other *types.Package) string {
		if other == c.Pkg.Types {
			return ""
		}
		return other.Name()
	}
	seen := map[string]bool{}
	addParam := func(name string, t types.Type, obj types.Object) {
		if name == "" || name == "_" || seen[name] {
			return
		}
		seen[name] = true
		params = append(params, fmt.Sprintf("%s %s", name, types.TypeString(t, qual)))
		if obj != nil {
			real[name] = obj
		}
	}
	// locals first (inner shadows outer, locals shadow parameters)
	if pos != token.NoPos && c.Decl.Body != nil && pos > c.Decl.Body.Lbrace+1 {
		for _, v := range localsAt(c.Pkg.TypesInfo, c.Decl, pos) {
			addParam(v.Name(), v.Type(), v)
		}
	}
	if sig.Recv() != nil {
		addParam(sig.Recv().Name(), sig.Recv().Type(), sig.Recv())
	}
	for i := 0; i < sig.Params().Len(); i++ {
		pv := sig.Params().At(i)
		t := pv.Type()
		if sig.Variadic() && i == sig.Params().Len()-1 {
			// variadic parameter is a slice inside the function
		}
		addParam(pv.Name(), t, pv)
	}
	if sig.Results() != nil {
		for i := 0; i < sig.Results().Len(); i++ {
			r := sig.Results().At(i)
			if r.Name() == "" || r.Name() == "_" {
				if post {
					addParam(fmt.Sprintf("result%d", i), r.Type(), nil)
				}
			} else {
				addParam(r.Name(), r.Type(), r)
			}
		}
	}
	if strings.Contains(text, "__index") {
		addParam("__index", types.Typ[types.Int], nil)
	}
	if strings.Contains(text, "__value") {
		return nil, fmt.Errorf("%s:%d: $value not supported", c.File, rc.line)
	}
	retType := "bool"
	prefix := "func(" + strings.Join(params, ", ") + ") " + retType + " { return "
	if !wantBool {
		prefix = "func(" + strings.Join(params, ", ") + ") { _ = "
	}
	wrapped := prefix + text + " }"
	expr, err := parser.ParseExpr(wrapped)
	if err != nil {
		return nil, &BindError{fmt.Sprintf("%s:%d: clause does not parse: %v [%s]", c.File, rc.line, err, rc.text)}
	}
	info := &types.Info{Types: map[ast.Expr]types.TypeAndValue{}, Uses: map[*ast.Ident]types.Object{}, Defs: map[*ast.Ident]types.Object{},
		Selections: map[*ast.SelectorExpr]*types.Selection{}, Implicits: map[ast.Node]types.Object{}}
	cpos := p.contractFilePosIn(c.Pkg, c.File)
	if err := types.CheckExpr(p.Fset, c.Pkg.Types, cpos, expr, info); err != nil {
		return nil, &BindError{fmt.Sprintf("%s:%d: clause does not type-check in %s: %v [%s]", c.File, rc.line, c.Key, err, rc.text)}
	}
	fl := expr.(*ast.FuncLit)
	var inner ast.Expr
	if wantBool {
		inner = fl.Body.List[0].(*ast.ReturnStmt).Results[0]
	} else {
		inner = fl.Body.List[0].(*ast.AssignStmt).Rhs[0]
	}
	for _, f := range fl.Type.Params.List {
		for _, n := range f.Names {
			if v, ok := info.Defs[n].(*types.Var); ok {
				extra[n.Name] = v
			}
		}
	}
	olds := map[ast.Expr]bool{}
	if len(oldOffsets) > 0 {
		want := map[int]bool{}
		for _, o := range oldOffsets {
			want[len(prefix)+o+1] = true // ParseExpr positions are 1-based offsets
		}
		ast.Inspect(inner, func(n ast.Node) bool {
			if pe, ok := n.(*ast.ParenExpr); ok && want[int(pe.Lparen)] {
				olds[pe] = true
			}
			return true
		})
		if len(olds) != len(oldOffsets) {
			return nil, fmt.Errorf("%s:%d: internal: could not locate old(...) markers (%d of %d)", c.File, rc.line, len(olds), len(oldOffsets))
		}
	}
	return &Clause{Kind: rc.kind, Text: rc.text, Expr: inner, Info: info, Olds: olds, Extra: extra, Real: real, Name: name, Line: rc.line, Pkg: c.Pkg, Tags: tags}, nil
}

// desugarImplies rewrites a ==> b (lowest precedence, right associative) into !(a) || (b).
// It works on the top level and recursively inside parentheses/braces segments that contain ==>.
func desugarImplies(s string) string {
	// find top-level ==>
	depth := 0
	for i := 0; i+2 < len(s); i++ {
		switch s[i] {
		case '(', '[', '{':
			depth++
		case ')', ']', '}':
			depth--
		case '"':
			// skip string literal
			j := i + 1
			for j < len(s) && s[j] != '"' {
				if s[j] == '\\' {
					j++
				}
				j++
			}
			i = j
		}
		if depth == 0 && strings.HasPrefix(s[i:], "==>") {
			a := strings.TrimSpace(s[:i])
			b := strings.TrimSpace(s[i+3:])
			return "!(" + desugarImplies(a) + ") || (" + desugarImplies(b) + ")"
		}
	}
	// recurse into bracketed groups
	var out strings.Builder
	i := 0
	for i < len(s) {
		ch := s[i]
		if ch == '(' || ch == '{' || ch == '[' {
			// find matching
			d := 0
			j := i
			for ; j < len(s); j++ {
				if s[j] == '(' || s[j] == '{' || s[j] == '[' {
					d++
				} else if s[j] == ')' || s[j] == '}' || s[j] == ']' {
					d--
					if d == 0 {
						break
					}
				}
			}
			if j >= len(s) {
				out.WriteString(s[i:])
				break
			}
			innerTxt := s[i+1 : j]
			if strings.Contains(innerTxt, "==>") {
				if ch == '{' {
					// function literal body: "return X" form
					trim := strings.TrimSpace(innerTxt)
					if strings.HasPrefix(trim, "return ") {
						innerTxt = " return " + desugarImplies(strings.TrimPrefix(trim, "return ")) + " "
					}
				} else {
					innerTxt = desugarImplies(innerTxt)
				}
			}
			out.WriteByte(ch)
			out.WriteString(innerTxt)
			out.WriteByte(s[j])
			i = j + 1
			continue
		}
		out.WriteByte(ch)
		i++
	}
	return out.String()
}

// contractFilePos: a position at file scope of the package's contract file.
func (p *Program) contractFilePos(pkg *packages.Package) token.Pos {
	for i, f := range pkg.Syntax {
		if filepath.Base(pkg.CompiledGoFiles[i]) == "verif_contracts.go" {
			return f.Name.End()
		}
	}
	for i, f := range pkg.Syntax {
		if isContractFile(pkg.CompiledGoFiles[i]) {
			return f.Name.End()
		}
	}
	return token.NoPos
}

// localsAt: local variables of decl visible at pos (innermost first).
func localsAt(info *types.Info, decl *ast.FuncDecl, pos token.Pos) []*types.Var {
	fscope := info.Scopes[decl.Type]
	if fscope == nil {
		return nil
	}
	inner := fscope.Innermost(pos)
	var out []*types.Var
	for s := inner; s != nil && s != fscope.Parent(); s = s.Parent() {
		for _, n := range s.Names() {
			if v, ok := s.Lookup(n).(*types.Var); ok && v.Pos() < pos {
				out = append(out, v)
			}
		}
	}
	return out
}

// constArrayInit: element values of a package-level array variable that has a constant composite
// literal initialiser and is never assigned (or address-taken) anywhere in the loaded packages.
func (p *Program) constArrayInit(v *types.Var) ([]*big.Int, bool) {
	if _, ok := v.Type().Underlying().(*types.Array); !ok {
		return nil, false
	}
	var lit *ast.CompositeLit
	var info *types.Info
	assigned := false
	for _, pkg := range p.ByPath {
		for _, f := range pkg.Syntax {
			ast.Inspect(f, func(n ast.Node) bool {
				isV := func(e ast.Expr) bool {
					for {
						switch x := e.(type) {
						case *ast.IndexExpr:
							e = x.X
							continue
						case *ast.ParenExpr:
							e = x.X
							continue
						case *ast.SliceExpr:
							e = x.X
							continue
						case *ast.Ident:
							return pkg.TypesInfo.Uses[x] == v
						case *ast.SelectorExpr:
							return pkg.TypesInfo.Uses[x.Sel] == v
						}
						return false
					}
				}
				switch s := n.(type) {
				case *ast.ValueSpec:
					for i, nm := range s.Names {
						if pkg.TypesInfo.Defs[nm] == v && i < len(s.Values) {
							if cl, ok := s.Values[i].(*ast.CompositeLit); ok {
								lit = cl
								info = pkg.TypesInfo
							}
						}
					}
				case *ast.AssignStmt:
					for _, l := range s.Lhs {
						if isV(l) {
							assigned = true
						}
					}
				case *ast.IncDecStmt:
					if isV(s.X) {
						assigned = true
					}
				case *ast.UnaryExpr:
					if s.Op == token.AND && isV(s.X) {
						assigned = true
					}
				}
				return true
			})
		}
	}
	if assigned {
		return nil, false
	}
	if lit == nil {
		return nil, true // no initialiser: all elements are zero
	}
	var out []*big.Int
	for _, el := range lit.Elts {
		tv, ok := info.Types[el]
		if !ok || tv.Value == nil {
			return nil, false
		}
		bi, ok := constant.Val(constant.ToInt(tv.Value)).(*big.Int)
		if !ok {
			i64, exact := constant.Int64Val(constant.ToInt(tv.Value))
			if !exact {
				return nil, false
			}
			bi = big.NewInt(i64)
		}
		out = append(out, bi)
	}
	return out, true
}

func (p *Program) contractFilePosIn(pkg *packages.Package, file string) token.Pos {
	for i, f := range pkg.Syntax {
		if pkg.CompiledGoFiles[i] == file {
			return f.Name.End()
		}
	}
	return p.contractFilePos(pkg)
}

// calleeName: the simple name of the function or method called.
func calleeName(call *ast.CallExpr) string {
	switch f := ast.Unparen(call.Fun).(type) {
	case *ast.Ident:
		return f.Name
	case *ast.SelectorExpr:
		return f.Sel.Name
	}
	return ""
}

func (cl *Clause) hasTag(t string) bool {
	for _, x := range cl.Tags {
		if x == t {
			return true
		}
	}
	return false
}
