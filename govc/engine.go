package main

// Per-function verification driver.

import (
	"fmt"
	"os"
	"go/ast"
	"go/token"
	"go/types"
	"sort"
	"strings"
)

type Engine struct {
	prog            *Program
	embIdx          map[string]int64
	strLits         map[string]bool
	strLitVals      map[string]string
	entryValues     []*Term
	entryValueNames []string
	ghostFuncs      map[string]func(x *Exec, st *State, e *ast.CallExpr) []Val
	compSorts       map[string]Sort
	compElem        map[string]compInfo // integer-typed heap components seen so far (for range axioms)
}

type compInfo struct {
	elem     types.Type
	sort     Sort
	twoLevel bool
}

type FuncResult struct {
	Key       string
	Contract  *Contract
	Obls      []*Obligation
	Assumed   []string
	Abstract  []string
	Err       error
	Ctx       *Ctx
	Variant   string
	StrFacts  []*Term
	Exec      *Exec
}

func newEngine(p *Program) *Engine {
	e := &Engine{prog: p, embIdx: map[string]int64{}, strLits: map[string]bool{}, strLitVals: map[string]string{}, compSorts: map[string]Sort{}, compElem: map[string]compInfo{}}
	e.ghostFuncs = map[string]func(x *Exec, st *State, e *ast.CallExpr) []Val{
		"ghostSpawned": func(x *Exec, st *State, e *ast.CallExpr) []Val {
			t := x.heapGet(st, "ghost.spawned", SInt)
			return []Val{{Typ: types.Typ[types.Int], T: x.intFromMath(t)}}
		},
		"ghostNow": func(x *Exec, st *State, e *ast.CallExpr) []Val {
			t := x.heapGet(st, "ghost.now", SInt)
			return []Val{{Typ: types.Typ[types.Int64], T: x.intFromMath(t)}}
		},
		"ghostLockDepth": func(x *Exec, st *State, e *ast.CallExpr) []Val {
			t := x.heapGet(st, "ghost.lockdepth", SInt)
			return []Val{{Typ: types.Typ[types.Int], T: x.intFromMath(t)}}
		},
	}
	// parseIntValue(s, base) / parseIntOK(s, base): the uninterpreted text->number functions behind strconv.ParseInt
	e.ghostFuncs["parseIntValue"] = func(x *Exec, st *State, e *ast.CallExpr) []Val {
		s := x.expr(st, e.Args[0])
		b := x.expr(st, e.Args[1])
		i64 := types.Typ[types.Int64]
		return []Val{{Typ: i64, T: x.uninterp("uf_parseint_val_"+x.mode, x.scalarSort(i64), s.T, b.T)}}
	}
	e.ghostFuncs["parseIntOK"] = func(x *Exec, st *State, e *ast.CallExpr) []Val {
		s := x.expr(st, e.Args[0])
		b := x.expr(st, e.Args[1])
		return []Val{{Typ: types.Typ[types.Bool], T: x.uninterp("uf_parseint_ok_"+x.mode, SBool, s.T, b.T)}}
	}
	e.ghostFuncs["formValue"] = func(x *Exec, st *State, e *ast.CallExpr) []Val {
		r := x.expr(st, e.Args[0])
		name := x.expr(st, e.Args[1])
		return []Val{{Typ: types.Typ[types.String], T: x.uninterp("uf_http_formvalue", x.scalarSort(types.Typ[types.String]), r.T, name.T)}}
	}
	registerGhostIO(e)
	return e
}

// intFromMath converts a mathematical Int ghost term to the representation of Go int.
func (x *Exec) intFromMath(t *Term) *Term {
	if x.mode == "math" {
		return t
	}
	return x.c.app("(_ int2bv 64)", SBV(64), t)
}

func sortedKeys(m map[string]bool) []string {
	var out []string
	for k := range m {
		out = append(out, k)
	}
	sort.Strings(out)
	return out
}

// VerifyFunc generates the obligations of one function under contract (one variant per enumeration value).
func VerifyFunc(p *Program, con *Contract) []*FuncResult {
	if err := p.Bind(con); err != nil {
		return []*FuncResult{{Key: con.Key, Contract: con, Err: err}}
	}
	variants := [][]enumChoice{nil}
	for _, es := range con.Enums {
		var next [][]enumChoice
		for _, v := range variants {
			for _, val := range es.Vals {
				next = append(next, append(append([]enumChoice{}, v...), enumChoice{es.Expr, val}))
			}
		}
		variants = next
	}
	modes := []string{con.Ints}
	if con.Ints == "both" {
		modes = []string{"bv", "math"}
	}
	var out []*FuncResult
	for _, mode := range modes {
		for _, v := range variants {
			out = append(out, verifyVariant(p, con, v, mode, len(modes) > 1))
		}
	}
	return out
}

type enumChoice struct {
	Expr string
	Val  int64
}

func verifyVariant(p *Program, con *Contract, choice []enumChoice, mode string, tagMode bool) (res *FuncResult) {
	eng := newEngine(p)
	c := NewCtx()
	x := &Exec{eng: eng, c: c, mode: mode, con: con, pkg: con.Pkg.Types, info: con.Pkg.TypesInfo, key: con.Key,
		counters: map[string]int{}, boxed: map[types.Object]bool{}, placehold: map[string]Val{}, assumed: map[string]bool{}, abstract: map[string]bool{},
		loopOrd: map[ast.Stmt]int{}, rangeFacts: map[int]bool{}, callCount: map[string]int{}, specs: map[string]*specInfo{}, globalInit: map[string]bool{}, callSeen: map[string]int{}}
	res = &FuncResult{Key: con.Key, Contract: con, Ctx: c, Exec: x}
	var vparts []string
	for _, ch := range choice {
		vparts = append(vparts, fmt.Sprintf("%s=%d", ch.Expr, ch.Val))
	}
	if tagMode {
		vparts = append([]string{"ints=" + mode}, vparts...)
	}
	res.Variant = strings.Join(vparts, ",")
	defer func() {
		// obligations of a variant carry the variant in their name (after '@')
		if res.Variant != "" {
			for _, o := range x.obls {
				if !strings.Contains(o.Name, "@") {
					o.Name += "@" + res.Variant
				}
			}
			if res.Obls == nil {
				res.Obls = x.obls
			}
		}
	}()
	defer func() {
		if r := recover(); r != nil {
			switch e := r.(type) {
			case *Abort:
				res.Err = &BindError{fmt.Sprintf("%s: outside the verified subset: %s", con.Key, e.Msg)}
			case *BindError:
				res.Err = e
			case error:
				if _, ok := e.(*BindError); ok {
					res.Err = e
					return
				}
				panic(r)
			default:
				panic(r)
			}
		}
		res.Assumed = sortedKeys(x.assumed)
		res.Abstract = sortedKeys(x.abstract)
	}()
	x.conSig = con.Fn.Type().(*types.Signature)
	sig := x.conSig
	for i, l := range collectLoops(con.Decl) {
		x.loopOrd[l] = i + 1
	}
	x.scanBoxed(con.Decl.Body)

	st := &State{reach: c.True(), vars: map[types.Object]Val{}, heap: map[string]*Term{}}
	brk0 := x.heapGet(st, "ghost.brk", SInt)
	alloc0 := brk0
	x.assumeGlobal(st, c.Ge(brk0, c.Int(1)))
	allocd := func(r *Term) {
		x.assumeGlobal(st, c.And(c.Ge(r, c.Int(0)), c.Lt(r, brk0)))
	}
	bindParam := func(p *types.Var, isRecv bool) {
		t := p.Type()
		if isObjType(t) {
			// by-value object parameter: the callee owns a private copy
			r := x.allocRef(st, p.Name())
			st.vars[p] = Val{Typ: t, T: r}
			return
		}
		v := x.freshVal(st, "p_"+p.Name(), t)
		if v.IsSlice() {
			allocd(v.Arr)
			eng.addEntryValue(p.Name()+".len", v.Len)
		} else {
			switch t.Underlying().(type) {
			case *types.Pointer, *types.Map, *types.Chan:
				allocd(v.T)
				if isRecv {
					x.assumeGlobal(st, c.Neq(v.T, c.Int(0)))
				}
			default:
				eng.addEntryValue(p.Name(), v.T)
			}
		}
		if x.boxed[p] {
			r := x.allocRef(st, "box_"+p.Name())
			st.vars[p] = Val{Typ: t, T: r}
			x.store(st, LV{kind: lvCell, ref: r, typ: t}, v)
			return
		}
		st.vars[p] = v
	}
	if sig.Recv() != nil {
		bindParam(sig.Recv(), true)
	}
	for i := 0; i < sig.Params().Len(); i++ {
		bindParam(sig.Params().At(i), false)
	}
	for i := 0; i < sig.Results().Len(); i++ {
		r := sig.Results().At(i)
		if r.Name() != "" && r.Name() != "_" {
			if isObjType(r.Type()) {
				x.declare(st, r, Val{})
			} else {
				x.declare(st, r, x.zeroValNoAlloc(r.Type()))
			}
			x.resultObjs = append(x.resultObjs, r)
		} else {
			x.resultObjs = append(x.resultObjs, nil)
		}
	}
	// enumeration choice and preconditions
	x.entry = st.clone()
	x.old = x.entry
	for _, ch := range choice {
		cl, err := p.bindClauseTyped(con, rawClause{"requires", fmt.Sprintf("int64(%s) == %d", ch.Expr, ch.Val), con.Line}, con.Decl.Body.Lbrace+1, sig, false, "enum", true)
		if err != nil {
			panic(err)
		}
		x.assume(st, x.evalClause(st, cl, nil))
		// the enumerated expression is replaced by the literal wherever it occurs from now on
		cl2, err := p.bindClauseTyped(con, rawClause{"requires", ch.Expr, con.Line}, con.Decl.Body.Lbrace+1, sig, false, "enum", false)
		if err != nil {
			panic(err)
		}
		savedInfo, savedClause := x.info, x.curClause
		x.info, x.curClause = cl2.Info, cl2
		x.noOblig++
		ev := x.expr(st, cl2.Expr)
		x.noOblig--
		x.info, x.curClause = savedInfo, savedClause
		if ev.T != nil && !ev.T.IsLit() {
			var lit *Term
			if ev.T.sort == SInt {
				lit = c.Int(ch.Val)
			} else if ev.T.sort.IsBV() {
				lit = c.BV64(ev.T.sort.BVWidth(), ch.Val)
			}
			if lit != nil {
				c.rewrite[ev.T.id] = lit
				// a parameter (or any variable) holding exactly this term gets the literal directly
				for k, v := range st.vars {
					if v.T == ev.T {
						v.T = lit
						st.vars[k] = v
					}
					if v.IsSlice() {
						if v.Len == ev.T {
							v.Len = lit
						}
						if v.Cap == ev.T {
							v.Cap = lit
						}
						st.vars[k] = v
					}
				}
			}
		}
	}
	for _, rq := range con.Requires {
		x.assume(st, x.evalClause(st, rq, nil))
	}
	entry := st.clone()
	x.entry = entry
	x.old = entry
	if con.Assumed != "" || con.Decl.Body == nil {
		// contract assumed: nothing to verify, but the precondition must be satisfiable
		x.cover(st, con.Key+"/cover.requires", "precondition satisfiable")
		res.Obls = x.obls
		return res
	}
	x.cover(st, con.Key+"/cover.requires", "precondition and type invariants satisfiable")
	for _, g := range con.Ghosts {
		if g.Anchor == "entry" {
			x.runGhost(st, g)
		}
	}

	end := x.block(st, con.Decl.Body.List)
	if !x.dead(end) {
		var rs []Val
		for i := 0; i < sig.Results().Len(); i++ {
			if x.resultObjs[i] == nil {
				x.fail("missing return")
			}
			rs = append(rs, x.load(end, x.varLV(end, x.resultObjs[i])))
		}
		end.results = rs
		x.returns = append(x.returns, end)
	}
	for _, r := range x.returns {
		x.runDefers(r)
	}
	var live []*State
	for _, r := range x.returns {
		if !x.dead(r) {
			live = append(live, r)
		}
	}
	// vacuity guard per return site: every return statement that the executor reached must be
	// reachable under the assumptions made on the way (an infeasible success path would make every
	// postcondition about it hold vacuously)
	for k, r := range live {
		x.cover(r, fmt.Sprintf("%s/cover.return#%d", con.Key, k+1), "return site reachable (assumptions on this path consistent)")
		if con.UnreachableOK != "" {
			x.obls[len(x.obls)-1].UnreachableOK = true
		}
	}
	final := x.mergeN(live)
	if final == nil {
		// function never returns normally (e.g. always panics): nothing to check at exit
		res.Obls = x.obls
		return res
	}
	x.curPos = con.Decl.Body.Rbrace
	// postconditions: parameters denote their entry values
	for i := 0; i < sig.Params().Len(); i++ {
		p := sig.Params().At(i)
		if !isObjType(p.Type()) && !x.boxed[p] {
			final.vars[p] = entry.vars[p]
		}
	}
	if sig.Recv() != nil && !isObjType(sig.Recv().Type()) {
		final.vars[sig.Recv()] = entry.vars[sig.Recv()]
	}
	ph := map[string]Val{}
	for i := 0; i < sig.Results().Len(); i++ {
		if x.resultObjs[i] == nil {
			ph[fmt.Sprintf("result%d", i)] = final.results[i]
		} else if !isObjType(x.resultObjs[i].Type()) {
			final.vars[x.resultObjs[i]] = final.results[i]
		}
	}
	x.placehold = ph
	x.old = entry
	for _, g := range con.Ghosts {
		if g.Anchor == "return" {
			x.runGhost(final, g)
		}
	}
	cut := final.clone()
	var cutFacts []*Term
	for _, en := range con.Ensures {
		if en.hasTag("assumed") {
			// clause about ghost/abstract state that the body cannot establish: used at call sites only
			x.assumed[fmt.Sprintf("clause %s of %s is assumed (abstract view of a component): %s", en.Name, con.Key, en.Text)] = true
			continue
		}
		for _, p := range x.clauseParts(cut, en, nil) {
			name := fmt.Sprintf("%s/%s%s", con.Key, en.Name, p.suffix)
			x.oblige(cut, name, "ensures", en.Text, p.t)
			if o := x.obls[len(x.obls)-1]; o.Status == "" {
				// path split conditions for the unknown case: the reach conditions of the return sites
				for _, r := range live {
					o.Split = append(o.Split, r.reach)
				}
			}
			// sequential cut: later postconditions may use the earlier ones (each is its own
			// obligation); tried only if the obligation is not discharged without them
			if o := x.obls[len(x.obls)-1]; o.Status == "" {
				o.Cut = append([]*Term{}, cutFacts...)
			}
			cutFacts = append(cutFacts, p.t)
		}
	}
	x.frameObligations(entry, final, alloc0)
	// canary: the exit must be reachable under the assumptions made on the way
	x.cover(final, con.Key+"/cover.exit", "function exit reachable (assumptions consistent)")
	res.Obls = x.obls
	return res
}

func (e *Engine) addEntryValue(name string, t *Term) {
	e.entryValues = append(e.entryValues, t)
	e.entryValueNames = append(e.entryValueNames, name)
}

// cover: a satisfiability check (vacuity guard). Expected answer: sat (or unknown), never unsat.
func (x *Exec) cover(st *State, name, text string) {
	o := &Obligation{Name: name, Func: x.key, Kind: "cover", Text: text, Goal: x.c.False(), ExpectSat: true}
	o.Assumptions = append(append([]*Term{}, st.facts...), st.reach)
	x.obls = append(x.obls, o)
}

// scanBoxed marks scalar locals whose address is taken.
func (x *Exec) scanBoxed(body ast.Node) {
	if body == nil {
		return
	}
	ast.Inspect(body, func(n ast.Node) bool {
		u, ok := n.(*ast.UnaryExpr)
		if !ok || u.Op != token.AND {
			return true
		}
		if id, ok := ast.Unparen(u.X).(*ast.Ident); ok {
			if v, ok := x.info.Uses[id].(*types.Var); ok && !isPkgLevel(v) && !isObjType(v.Type()) {
				// &x passed to sync/atomic is handled as an lvalue, no boxing needed
				x.boxed[v] = true
			}
		}
		return true
	})
}

// frameObligations: every location written on some path is either named by a modifies clause or
// belongs to an object allocated by this call. The final value of each heap component is a tree of
// ite/store over its entry symbol; the written indices are read off that tree, so the obligations
// are quantifier-free: path condition of the write => index is one of the named locations.
func (x *Exec) frameObligations(entry, final *State, alloc0 *Term) {
	con := x.con
	if con.ModAll {
		return
	}
	c := x.c
	allowed := map[string][]modLoc{}
	for _, mc := range con.Modifies {
		savedInfo, savedClause := x.info, x.curClause
		x.info, x.curClause = mc.Info, mc
		x.noOblig++
		es := entry.clone()
		locs := x.modLocations(es, mc.Expr)
		x.noOblig--
		x.info, x.curClause = savedInfo, savedClause
		for _, l := range locs {
			allowed[l.comp] = append(allowed[l.comp], l)
		}
	}
	var names []string
	for name := range final.heap {
		names = append(names, name)
	}
	sort.Strings(names)
	for _, name := range names {
		ft := final.heap[name]
		et, ok := entry.heap[name]
		if !ok {
			et = x.heapGet(entry, name, ft.sort)
		}
		if ft == et || name == "ghost.brk" || strings.HasPrefix(name, "ghost.lockdepth") {
			continue
		}
		locs := allowed[name]
		whole := false
		for _, l := range locs {
			if l.whole {
				whole = true
			}
		}
		if whole {
			continue
		}
		obName := fmt.Sprintf("%s/frame.%s", con.Key, name)
		text := "only locations named by modifies (or freshly allocated) are written: " + name
		if !ft.sort.IsArray() {
			x.oblige(final, obName, "frame", text, c.Eq(ft, et))
			continue
		}
		if is, _ := ft.sort.ArrayParts(); is != SInt {
			x.oblige(final, obName, "frame", text, c.Eq(ft, et))
			continue
		}
		// collect (path condition, written index) pairs
		type wr struct {
			cond *Term
			idx  *Term // nil: unknown base (component replaced wholesale)
		}
		var writes []wr
		seen := map[string]bool{}
		var walk func(t *Term, cond *Term)
		walk = func(t *Term, cond *Term) {
			if t == et || cond.IsFalse() || (t.kind == kConst && strings.HasPrefix(t.op, "H0_")) {
				return
			}
			key := fmt.Sprintf("%d|%d", t.id, cond.id)
			if seen[key] {
				return
			}
			seen[key] = true
			if t.kind == kApp && t.op == "ite" {
				walk(t.args[1], c.And(cond, t.args[0]))
				walk(t.args[2], c.And(cond, c.Not(t.args[0])))
				return
			}
			if t.kind == kApp && t.op == "store" {
				writes = append(writes, wr{cond, t.args[1]})
				walk(t.args[0], cond)
				return
			}
			writes = append(writes, wr{cond, nil})
			if os.Getenv("GOVC_DEBUG") != "" {
				fmt.Fprintf(os.Stderr, "frame %s: unknown base %s (entry %s)\n", name, c.Show(t), c.Show(et))
			}
		}
		walk(ft, c.True())
		var goals []*Term
		for _, w := range writes {
			if w.idx == nil {
				goals = append(goals, c.Not(w.cond))
				continue
			}
			if isFreshRef(w.idx) {
				continue
			}
			// semantic freshness: the root object of the written address was not allocated at entry
			alts := []*Term{c.Ge(embRoot(w.idx), alloc0)}
			for _, l := range locs {
				if l.key != nil {
					continue // single entries of a two-level component are not accepted by this (syntactic) check
				}
				alts = append(alts, c.Eq(w.idx, l.ref))
			}
			goals = append(goals, c.Implies(w.cond, c.Or(alts...)))
		}
		x.oblige(final, obName, "frame", text, c.And(goals...))
	}
}

// isFreshRef: the reference is (an embedded address or element of) an object allocated by this call.
func isFreshRef(t *Term) bool {
	for {
		switch {
		case t.kind == kConst:
			return strings.HasPrefix(t.op, "new_")
		case t.kind == kApp && t.op == "+" && len(t.args) == 2 && t.args[1].kind == kIntLit && t.args[0].kind == kApp && t.args[0].op == "*" && t.args[0].args[1].kind == kIntLit:
			t = t.args[0].args[0]
		case t.kind == kApp && t.op == "elemref":
			t = t.args[0]
		case t.kind == kApp && t.op == "ite":
			return isFreshRef(t.args[1]) && isFreshRef(t.args[2])
		default:
			return false
		}
	}
}

// embRoot strips embedded-object address arithmetic and element references: the root object.
func embRoot(t *Term) *Term {
	for {
		switch {
		case t.kind == kApp && t.op == "+" && len(t.args) == 2 && t.args[1].kind == kIntLit && t.args[0].kind == kApp && t.args[0].op == "*" && t.args[0].args[1].kind == kIntLit:
			t = t.args[0].args[0]
		case t.kind == kApp && t.op == "elemref":
			t = t.args[0]
		default:
			return t
		}
	}
}
