package main

// Expression translation.

import (
	"fmt"
	"go/ast"
	"go/constant"
	"go/token"
	"go/types"
	"math/big"
)

func (x *Exec) typeOf(e ast.Expr) types.Type {
	if tv, ok := x.info.Types[e]; ok && tv.Type != nil {
		return tv.Type
	}
	if id, ok := e.(*ast.Ident); ok {
		if o := x.info.Uses[id]; o != nil {
			return o.Type()
		}
		if o := x.info.Defs[id]; o != nil {
			return o.Type()
		}
	}
	x.fail("no type for expression %s", exprString(e))
	return nil
}

func exprString(e ast.Expr) string { return types.ExprString(e) }

func (x *Exec) constVal(e ast.Expr) (Val, bool) {
	tv, ok := x.info.Types[e]
	if !ok || tv.Value == nil {
		return Val{}, false
	}
	t := tv.Type
	switch tv.Value.Kind() {
	case constant.Bool:
		return Val{Typ: t, T: x.c.Bool(constant.BoolVal(tv.Value))}, true
	case constant.String:
		return Val{Typ: t, T: x.strConst(constant.StringVal(tv.Value))}, true
	case constant.Int:
		bi, ok := constant.Val(tv.Value).(*big.Int)
		if !ok {
			i64, _ := constant.Int64Val(tv.Value)
			bi = big.NewInt(i64)
		}
		if _, _, isInt := intInfo(t); isInt {
			return Val{Typ: t, T: x.intLit(t, bi)}, true
		}
		if isFloat(t) {
			return Val{Typ: t, T: x.c.Fresh("floatconst", SInt)}, true
		}
	case constant.Float:
		if _, _, isInt := intInfo(t); isInt {
			if iv := constant.ToInt(tv.Value); iv.Kind() == constant.Int {
				bi, ok := constant.Val(iv).(*big.Int)
				if !ok {
					i64, _ := constant.Int64Val(iv)
					bi = big.NewInt(i64)
				}
				return Val{Typ: t, T: x.intLit(t, bi)}, true
			}
		}
		return Val{Typ: t, T: x.c.Fresh("floatconst", SInt)}, true
	}
	return Val{}, false
}

// ---------- lvalues ----------

type lvKind int

const (
	lvVar lvKind = iota
	lvGlobal
	lvField
	lvElem
	lvCell
	lvMap
	lvBlank
	lvObj // an object (struct/array) denoted by its reference
)

type LV struct {
	kind      lvKind
	obj       types.Object
	ref       *Term
	structKey string
	field     string
	arr, idx  *Term
	mapRef    *Term
	key       Val
	typ       types.Type
}

func globalComp(o types.Object) string {
	return "G." + o.Pkg().Name() + "." + o.Name()
}

func (x *Exec) globalAddr(o types.Object) *Term {
	k := x.eng.embIndex("global:" + o.Pkg().Path() + "." + o.Name())
	// globals live at small constant addresses k*embN (multiples of embN, below every allocation)
	return x.c.Int(k * embN)
}

// globalObj: reference of a package-level object variable; for never-assigned arrays with a
// constant initialiser the element values are asserted (once per state chain).
func (x *Exec) globalObj(st *State, v *types.Var) *Term {
	ref := x.globalAddr(v)
	if x.specMode {
		return ref
	}
	key := v.Pkg().Path() + "." + v.Name()
	if x.globalInit[key] {
		return ref
	}
	x.globalInit[key] = true
	vals, ok := x.eng.prog.constArrayInit(v)
	if !ok {
		return ref
	}
	at := v.Type().Underlying().(*types.Array)
	m := x.heapGet(st, memComp(at.Elem()), x.memSort(at.Elem()))
	// facts are about the entry memory: the variable is never assigned anywhere in the loaded packages
	m0 := x.c.Const("H0_"+sanitize(memComp(at.Elem())), x.memSort(at.Elem()))
	if vals == nil {
		if _, _, isInt := intInfo(at.Elem()); !isInt {
			return ref
		}
		j := x.c.Bound("j", x.idxSort())
		x.assumeGlobal(st, x.c.Forall([]*Term{j}, x.c.Eq(x.c.Select(x.c.Select(m0, ref), j), x.zeroScalar(at.Elem())), []*Term{x.c.Select(x.c.Select(m0, ref), j)}))
		if m != m0 {
			// the variable is never assigned, so the same holds in the current memory
			x.assumeGlobal(st, x.c.Forall([]*Term{j}, x.c.Eq(x.c.Select(x.c.Select(m, ref), j), x.zeroScalar(at.Elem())), []*Term{x.c.Select(x.c.Select(m, ref), j)}))
		}
	}
	for i, bv := range vals {
		x.assumeGlobal(st, x.c.Eq(x.c.Select(x.c.Select(m0, ref), x.idxLit(int64(i))), x.intLit(at.Elem(), bv)))
	}
	x.assumed["package variable "+v.Pkg().Name()+"."+v.Name()+" is never assigned (slices of it are assumed not to be written through): elements equal its initialiser"] = true
	return ref
}

func (x *Exec) lvalue(st *State, e ast.Expr) LV {
	x.curPos = e.Pos()
	switch e := e.(type) {
	case *ast.ParenExpr:
		if x.isOld(e) {
			x.fail("old(...) is not an lvalue")
		}
		return x.lvalue(st, e.X)
	case *ast.Ident:
		if e.Name == "_" {
			return LV{kind: lvBlank}
		}
		obj := x.info.Uses[e]
		if obj == nil {
			obj = x.info.Defs[e]
		}
		if x.curClause != nil && obj != nil {
			if ev, ok := x.curClause.Extra[e.Name]; ok && ev == obj {
				if pv, ok := x.placehold[e.Name]; ok && isObjType(pv.Typ) {
					return LV{kind: lvObj, ref: pv.T, typ: pv.Typ}
				}
				if ro, ok := x.curClause.Real[e.Name]; ok {
					obj = ro
				}
			}
		}
		v, ok := obj.(*types.Var)
		if !ok {
			x.fail("lvalue: %s is not a variable", e.Name)
		}
		if isPkgLevel(v) {
			if isObjType(v.Type()) {
				return LV{kind: lvObj, ref: x.globalObj(st, v), typ: v.Type()}
			}
			return LV{kind: lvGlobal, obj: v, typ: v.Type()}
		}
		if isObjType(v.Type()) {
			val, ok := st.vars[v]
			if !ok {
				x.fail("variable %s not in scope", v.Name())
			}
			return LV{kind: lvObj, ref: val.T, typ: v.Type(), obj: v}
		}
		if x.boxed[v] {
			val, ok := st.vars[v]
			if !ok {
				x.fail("variable %s not in scope", v.Name())
			}
			return LV{kind: lvCell, ref: val.T, typ: v.Type()}
		}
		return LV{kind: lvVar, obj: v, typ: v.Type()}
	case *ast.SelectorExpr:
		if sel, ok := x.info.Selections[e]; ok {
			if sel.Kind() != types.FieldVal {
				x.fail("lvalue: method value %s", exprString(e))
			}
			base := x.expr(st, e.X)
			return x.walkFields(st, base, sel.Recv(), sel.Index(), true)
		}
		// qualified identifier pkg.Var
		obj := x.info.Uses[e.Sel]
		if v, ok := obj.(*types.Var); ok {
			if isObjType(v.Type()) {
				return LV{kind: lvObj, ref: x.globalObj(st, v), typ: v.Type()}
			}
			return LV{kind: lvGlobal, obj: v, typ: v.Type()}
		}
		x.fail("lvalue: unsupported selector %s", exprString(e))
	case *ast.IndexExpr:
		bt := x.typeOf(e.X)
		switch u := bt.Underlying().(type) {
		case *types.Map:
			m := x.expr(st, e.X)
			k := x.expr(st, e.Index)
			return LV{kind: lvMap, mapRef: m.T, key: k, typ: u.Elem(), obj: nil, structKey: typeKey(bt)}
		case *types.Slice:
			s := x.expr(st, e.X)
			i := x.toIdx(st, x.expr(st, e.Index))
			x.boundsCheck(st, i, s.Len, exprString(e))
			return x.elemLV(s.Arr, x.idxAdd(s.Off, i), u.Elem())
		case *types.Array:
			a := x.lvalue(st, e.X)
			if a.kind != lvObj {
				x.fail("index of non-addressable array")
			}
			i := x.toIdx(st, x.expr(st, e.Index))
			x.boundsCheck(st, i, x.idxLit(u.Len()), exprString(e))
			return x.elemLV(a.ref, i, u.Elem())
		case *types.Pointer: // pointer to array
			if at, ok := u.Elem().Underlying().(*types.Array); ok {
				p := x.expr(st, e.X)
				x.nilCheck(st, p.T, exprString(e.X))
				i := x.toIdx(st, x.expr(st, e.Index))
				x.boundsCheck(st, i, x.idxLit(at.Len()), exprString(e))
				return x.elemLV(p.T, i, at.Elem())
			}
		}
		x.fail("lvalue: unsupported index base type %s", bt)
	case *ast.StarExpr:
		p := x.expr(st, e.X)
		x.nilCheck(st, p.T, exprString(e.X))
		et := x.typeOf(e)
		if isObjType(et) {
			return LV{kind: lvObj, ref: p.T, typ: et}
		}
		return LV{kind: lvCell, ref: p.T, typ: et}
	case *ast.CompositeLit, *ast.CallExpr:
		v := x.expr(st, e)
		if isObjType(v.Typ) {
			return LV{kind: lvObj, ref: v.T, typ: v.Typ}
		}
	}
	x.fail("unsupported lvalue %s (%T)", exprString(e), e)
	return LV{}
}

func (x *Exec) elemLV(arr, idx *Term, el types.Type) LV {
	if isObjType(el) {
		return LV{kind: lvObj, ref: x.elemRef(arr, idx), typ: el}
	}
	return LV{kind: lvElem, arr: arr, idx: idx, typ: el}
}

func isPkgLevel(v *types.Var) bool {
	return v.Pkg() != nil && v.Parent() == v.Pkg().Scope()
}

// walkFields follows a selection path from base (of type recv).
func (x *Exec) walkFields(st *State, base Val, recv types.Type, path []int, wantLV bool) LV {
	cur := base
	ct := recv
	var lv LV
	for n, i := range path {
		// auto-deref
		if p, ok := ct.Underlying().(*types.Pointer); ok {
			x.nilCheck(st, cur.T, "field access through nil pointer")
			ct = p.Elem()
		}
		s, ok := ct.Underlying().(*types.Struct)
		if !ok {
			x.fail("field selection on non-struct %s", ct)
		}
		f := s.Field(i)
		sk := typeKey(ct)
		if isObjType(f.Type()) {
			lv = LV{kind: lvObj, ref: x.embRef(cur.T, sk, f.Name()), typ: f.Type()}
		} else {
			lv = LV{kind: lvField, ref: cur.T, structKey: sk, field: f.Name(), typ: f.Type()}
		}
		if n < len(path)-1 {
			cur = x.load(st, lv)
			ct = f.Type()
		}
	}
	return lv
}

func (x *Exec) cellComp(t types.Type) string { return "Cell." + typeKey(t) }

func (x *Exec) load(st *State, lv LV) Val {
	switch lv.kind {
	case lvVar:
		v, ok := st.vars[lv.obj]
		if !ok {
			x.fail("variable %s not in scope (declared in a branch?)", lv.obj.Name())
		}
		return v
	case lvGlobal:
		return x.loadGlobal(st, lv.obj)
	case lvField:
		return x.loadField(st, lv.ref, lv.structKey, lv.field, lv.typ)
	case lvElem:
		return x.loadElem(st, lv.arr, lv.idx, lv.typ)
	case lvObj:
		return Val{Typ: lv.typ, T: lv.ref}
	case lvCell:
		if isSliceT(lv.typ) {
			base := x.cellComp(lv.typ)
			is := x.idxSort()
			v := Val{Typ: lv.typ,
				Arr: x.c.Select(x.heapGet(st, base+"#arr", SArr(SInt, SInt)), lv.ref),
				Off: x.c.Select(x.heapGet(st, base+"#off", SArr(SInt, is)), lv.ref),
				Len: x.c.Select(x.heapGet(st, base+"#len", SArr(SInt, is)), lv.ref),
				Cap: x.c.Select(x.heapGet(st, base+"#cap", SArr(SInt, is)), lv.ref)}
			x.noteSlice(st, v)
			return v
		}
		s := x.scalarSort(lv.typ)
		t := x.c.Select(x.heapGet(st, x.cellComp(lv.typ), SArr(SInt, s)), lv.ref)
		x.noteRead(st, t, lv.typ)
		return Val{Typ: lv.typ, T: t}
	case lvMap:
		v, _ := x.mapRead(st, lv.mapRef, lv.key, lv.structKey, lv.typ)
		return v
	}
	x.fail("load of unsupported lvalue")
	return Val{}
}

func (x *Exec) loadGlobal(st *State, o types.Object) Val {
	t := o.Type()
	base := globalComp(o)
	if isSliceT(t) {
		is := x.idxSort()
		v := Val{Typ: t, Arr: x.heapGet(st, base+"#arr", SInt), Off: x.heapGet(st, base+"#off", is), Len: x.heapGet(st, base+"#len", is), Cap: x.heapGet(st, base+"#cap", is)}
		x.noteSlice(st, v)
		return v
	}
	term := x.heapGet(st, base, x.scalarSort(t))
	x.noteRead(st, term, t)
	return Val{Typ: t, T: term}
}

func (x *Exec) store(st *State, lv LV, v Val) {
	switch lv.kind {
	case lvBlank:
		return
	case lvVar:
		v.Typ = lv.typ
		st.vars[lv.obj] = v
	case lvGlobal:
		base := globalComp(lv.obj)
		if isSliceT(lv.typ) {
			x.heapSet(st, base+"#arr", v.Arr)
			x.heapSet(st, base+"#off", v.Off)
			x.heapSet(st, base+"#len", v.Len)
			x.heapSet(st, base+"#cap", v.Cap)
			return
		}
		x.heapSet(st, base, v.T)
	case lvField:
		x.storeField(st, lv.ref, lv.structKey, lv.field, lv.typ, v)
	case lvElem:
		x.storeElem(st, lv.arr, lv.idx, lv.typ, v)
	case lvObj:
		x.copyObject(st, lv.ref, v.T, lv.typ)
	case lvCell:
		if isSliceT(lv.typ) {
			base := x.cellComp(lv.typ)
			is := x.idxSort()
			x.heapSet(st, base+"#arr", x.c.Store(x.heapGet(st, base+"#arr", SArr(SInt, SInt)), lv.ref, v.Arr))
			x.heapSet(st, base+"#off", x.c.Store(x.heapGet(st, base+"#off", SArr(SInt, is)), lv.ref, v.Off))
			x.heapSet(st, base+"#len", x.c.Store(x.heapGet(st, base+"#len", SArr(SInt, is)), lv.ref, v.Len))
			x.heapSet(st, base+"#cap", x.c.Store(x.heapGet(st, base+"#cap", SArr(SInt, is)), lv.ref, v.Cap))
			return
		}
		comp := x.cellComp(lv.typ)
		s := x.scalarSort(lv.typ)
		x.heapSet(st, comp, x.c.Store(x.heapGet(st, comp, SArr(SInt, s)), lv.ref, v.T))
	case lvMap:
		x.mapWrite(st, lv.mapRef, lv.key, lv.structKey, lv.typ, v)
	default:
		x.fail("store to unsupported lvalue")
	}
}

// ---------- maps ----------

func (x *Exec) mapSorts(mapKey string, k Val, elem types.Type) (ks, vs Sort) {
	ks = k.T.sort
	if isSliceT(elem) {
		x.fail("maps with slice values are not supported")
	}
	vs = x.scalarSort(elem)
	return
}

func (x *Exec) mapRead(st *State, m *Term, k Val, mapKey string, elem types.Type) (Val, *Term) {
	ks, vs := x.mapSorts(mapKey, k, elem)
	dom := x.c.Select(x.heapGet(st, "MD."+mapKey, SArr(SInt, SArr(ks, SBool))), m)
	val := x.c.Select(x.heapGet(st, "MV."+mapKey, SArr(SInt, SArr(ks, vs))), m)
	ok := x.c.And(x.c.Neq(m, x.c.Int(0)), x.c.Select(dom, k.T))
	raw := x.c.Select(val, k.T)
	if !isObjType(elem) {
		x.rangeAxiom(st, "MV."+mapKey, SArr(SInt, SArr(ks, vs)), elem, true)
	}
	if isObjType(elem) {
		// value objects stored by reference to an immutable copy; absent -> zero object (fresh, zeroed)
		x.noteRead(st, raw, types.NewPointer(elem))
		return Val{Typ: elem, T: raw}, ok
	}
	x.noteRead(st, raw, elem)
	return Val{Typ: elem, T: x.c.Ite(ok, raw, x.zeroScalar(elem))}, ok
}

func (x *Exec) mapWrite(st *State, m *Term, k Val, mapKey string, elem types.Type, v Val) {
	ks, vs := x.mapSorts(mapKey, k, elem)
	x.nilCheck(st, m, "assignment to entry in nil map")
	dn, vn := "MD."+mapKey, "MV."+mapKey
	D := x.heapGet(st, dn, SArr(SInt, SArr(ks, SBool)))
	V := x.heapGet(st, vn, SArr(SInt, SArr(ks, vs)))
	val := v.T
	if isObjType(elem) {
		r := x.allocRef(st, "mapval")
		x.copyObject(st, r, v.T, elem)
		val = r
	}
	x.heapSet(st, dn, x.c.Store(D, m, x.c.Store(x.c.Select(D, m), k.T, x.c.True())))
	x.heapSet(st, vn, x.c.Store(V, m, x.c.Store(x.c.Select(V, m), k.T, val)))
}

func (x *Exec) mapDelete(st *State, m *Term, k Val, mapKey string) {
	dn := "MD." + mapKey
	D := x.heapGet(st, dn, SArr(SInt, SArr(k.T.sort, SBool)))
	x.heapSet(st, dn, x.c.Store(D, m, x.c.Store(x.c.Select(D, m), k.T, x.c.False())))
}

// ---------- checks ----------

func (x *Exec) nilCheck(st *State, r *Term, what string) {
	x.safety(st, "nil", "non-nil: "+what, x.c.Neq(r, x.c.Int(0)))
}

func (x *Exec) boundsCheck(st *State, i, n *Term, what string) {
	x.safety(st, "index", "index in range: "+what, x.c.And(x.idxLe(x.idxLit(0), i), x.idxLt(i, n)))
}

// toIdx converts an integer value to the index sort (Go int).
func (x *Exec) toIdx(st *State, v Val) *Term {
	return x.convertInt(st, v.T, v.Typ, types.Typ[types.Int], false)
}

// ---------- conversions ----------

func (x *Exec) convertInt(st *State, t *Term, from, to types.Type, check bool) *Term {
	fw, fs, ok1 := intInfo(from)
	tw, ts, ok2 := intInfo(to)
	if !ok1 || !ok2 {
		x.fail("convertInt %s -> %s", from, to)
	}
	if x.mode == "bv" {
		switch {
		case tw == fw:
			return t
		case tw < fw:
			return x.c.Extract(tw-1, 0, t)
		default:
			if fs {
				return x.c.SignExt(tw-fw, t)
			}
			return x.c.ZeroExt(tw-fw, t)
		}
	}
	// math: value preserved if the source range fits
	flo, fhi := typeRange(fw, fs)
	tlo, thi := typeRange(tw, ts)
	if flo.Cmp(tlo) >= 0 && fhi.Cmp(thi) <= 0 {
		return t
	}
	if t.kind == kIntLit && t.val.Cmp(tlo) >= 0 && t.val.Cmp(thi) <= 0 {
		return t
	}
	if !ts {
		// unsigned target: exact wrap-around
		m := new(big.Int).Lsh(big.NewInt(1), uint(tw))
		if fs || fw > tw {
			return x.c.Mod(t, x.c.IntBig(m))
		}
		return t
	}
	// signed target: exact two's complement wrap-around: ((t + 2^(w-1)) mod 2^w) - 2^(w-1)
	half := new(big.Int).Lsh(big.NewInt(1), uint(tw-1))
	m := new(big.Int).Lsh(big.NewInt(1), uint(tw))
	return x.c.Sub(x.c.Mod(x.c.Add(t, x.c.IntBig(half)), x.c.IntBig(m)), x.c.IntBig(half))
}

func (x *Exec) isOld(e *ast.ParenExpr) bool {
	return x.curClause != nil && x.curClause.Olds[e]
}

// ---------- main expression translator ----------

func (x *Exec) expr(st *State, e ast.Expr) Val {
	x.curPos = e.Pos()
	if x.frozen != nil {
		if v, ok := x.frozen[e]; ok {
			return v
		}
	}
	if v, ok := x.constVal(e); ok {
		return v
	}
	switch e := e.(type) {
	case *ast.ParenExpr:
		if x.isOld(e) {
			if x.old == nil {
				x.fail("old(...) outside a postcondition context")
			}
			// evaluate in the old state: old heap, but current bindings of clause parameters
			os := x.old.clone()
			os.reach = st.reach
			os.facts = st.facts
			for k, v := range st.vars {
				if _, ok := os.vars[k]; !ok {
					os.vars[k] = v
				}
			}
			saved := x.noOblig
			x.noOblig++
			v := x.expr(os, e.X)
			x.noOblig = saved
			st.facts = os.facts
			return v
		}
		return x.expr(st, e.X)
	case *ast.Ident:
		return x.identVal(st, e)
	case *ast.BasicLit:
		x.fail("non-constant literal %s", e.Value)
	case *ast.UnaryExpr:
		return x.unary(st, e)
	case *ast.BinaryExpr:
		return x.binary(st, e)
	case *ast.CallExpr:
		rs := x.call(st, e)
		if len(rs) == 0 {
			x.fail("call used as value has no result: %s", exprString(e))
		}
		return rs[0]
	case *ast.SelectorExpr:
		if sel, ok := x.info.Selections[e]; ok {
			switch sel.Kind() {
			case types.FieldVal:
				base := x.expr(st, e.X)
				lv := x.walkFields(st, base, sel.Recv(), sel.Index(), false)
				return x.load(st, lv)
			default:
				x.fail("method value %s not supported", exprString(e))
			}
		}
		obj := x.info.Uses[e.Sel]
		switch o := obj.(type) {
		case *types.Var:
			if isObjType(o.Type()) {
				return Val{Typ: o.Type(), T: x.globalObj(st, o)}
			}
			return x.loadGlobal(st, o)
		case *types.Func:
			return Val{Typ: o.Type(), FnObj: o}
		case *types.Nil:
			return Val{Typ: x.typeOf(e), T: x.c.Int(0)}
		}
		x.fail("unsupported selector %s", exprString(e))
	case *ast.IndexExpr:
		return x.indexExpr(st, e)
	case *ast.SliceExpr:
		return x.sliceExpr(st, e)
	case *ast.StarExpr:
		lv := x.lvalue(st, e)
		return x.load(st, lv)
	case *ast.CompositeLit:
		return x.compositeLit(st, e)
	case *ast.FuncLit:
		return Val{Typ: x.typeOf(e), Fn: e}
	case *ast.TypeAssertExpr:
		x.abstract["type assertion "+exprString(e)] = true
		return x.freshVal(st, "typeassert", x.typeOf(e))
	}
	x.fail("unsupported expression %s (%T)", exprString(e), e)
	return Val{}
}

func (x *Exec) identVal(st *State, e *ast.Ident) Val {
	obj := x.info.Uses[e]
	if obj == nil {
		obj = x.info.Defs[e]
	}
	if x.curClause != nil && obj != nil {
		if ev, ok := x.curClause.Extra[e.Name]; ok && ev == obj {
			// a parameter of the clause wrapper: placeholder value or the real object of that name
			if pv, ok := x.placehold[e.Name]; ok {
				return pv
			}
			ro, ok := x.curClause.Real[e.Name]
			if !ok {
				x.fail("clause identifier %s has no binding", e.Name)
			}
			obj = ro
		}
	}
	switch o := obj.(type) {
	case *types.Nil:
		t := x.typeOf(e)
		if isSliceT(t) {
			return x.zeroValNoAlloc(t)
		}
		return Val{Typ: t, T: x.c.Int(0)}
	case *types.Var:
		if isPkgLevel(o) {
			if isObjType(o.Type()) {
				return Val{Typ: o.Type(), T: x.globalObj(st, o)}
			}
			return x.loadGlobal(st, o)
		}
		v, ok := st.vars[o]
		if !ok {
			x.fail("variable %s not bound in this state", o.Name())
		}
		if x.boxed[o] && !isObjType(o.Type()) {
			return x.load(st, LV{kind: lvCell, ref: v.T, typ: o.Type()})
		}
		return v
	case *types.Func:
		return Val{Typ: o.Type(), FnObj: o}
	case *types.Const:
		// handled by constVal normally
	}
	x.fail("unsupported identifier %s", e.Name)
	return Val{}
}


func (x *Exec) unary(st *State, e *ast.UnaryExpr) Val {
	c := x.c
	switch e.Op {
	case token.AND:
		switch inner := ast.Unparen(e.X).(type) {
		case *ast.CompositeLit:
			v := x.compositeLit(st, inner)
			return Val{Typ: x.typeOf(e), T: v.T}
		default:
			lv := x.lvalue(st, e.X)
			switch lv.kind {
			case lvObj, lvCell:
				return Val{Typ: x.typeOf(e), T: lv.ref}
			}
			x.fail("address of %s: only objects and boxed variables are addressable in the model", exprString(e.X))
		}
	case token.NOT:
		v := x.expr(st, e.X)
		return Val{Typ: v.Typ, T: c.Not(v.T)}
	case token.SUB:
		v := x.expr(st, e.X)
		if isFloat(v.Typ) {
			return x.freshVal(st, "float", v.Typ)
		}
		if x.mode == "bv" {
			return Val{Typ: v.Typ, T: c.BVNeg(v.T)}
		}
		r := c.Neg(v.T)
		x.overflowCheck(st, r, v.Typ, exprString(e))
		return Val{Typ: v.Typ, T: r}
	case token.ADD:
		return x.expr(st, e.X)
	case token.XOR:
		v := x.expr(st, e.X)
		if x.mode == "bv" {
			return Val{Typ: v.Typ, T: c.BVNot(v.T)}
		}
		w, s, _ := intInfo(v.Typ)
		if s {
			return Val{Typ: v.Typ, T: c.Sub(c.Neg(v.T), c.Int(1))}
		}
		_, hi := typeRange(w, false)
		return Val{Typ: v.Typ, T: c.Sub(c.IntBig(hi), v.T)}
	case token.ARROW:
		x.abstract["channel receive"] = true
		return x.freshVal(st, "recv", x.typeOf(e))
	}
	x.fail("unsupported unary operator %s", e.Op)
	return Val{}
}

func (x *Exec) overflowCheck(st *State, r *Term, t types.Type, what string) {
	if x.mode != "math" || x.noOblig > 0 || x.specMode {
		return
	}
	if x.con != nil && x.con.NoOverflow {
		x.assumed["arithmetic in "+x.key+" does not overflow (counters stay far below 2^63): declared by the contract"] = true
		return
	}
	if _, _, ok := intInfo(t); !ok {
		return
	}
	x.safety(st, "overflow", "no overflow in "+what, x.inRange(r, t))
}

func (x *Exec) binary(st *State, e *ast.BinaryExpr) Val {
	c := x.c
	switch e.Op {
	case token.LAND, token.LOR:
		a := x.expr(st, e.X)
		// evaluate the right operand under the guard (for safety obligations and assumptions)
		saved := st.reach
		if e.Op == token.LAND {
			st.reach = c.And(st.reach, a.T)
		} else {
			st.reach = c.And(st.reach, c.Not(a.T))
		}
		b := x.expr(st, e.Y)
		st.reach = saved
		if e.Op == token.LAND {
			return Val{Typ: a.Typ, T: c.And(a.T, b.T)}
		}
		return Val{Typ: a.Typ, T: c.Or(a.T, b.T)}
	}
	xt := x.typeOf(e.X)
	switch e.Op {
	case token.EQL, token.NEQ:
		a := x.expr(st, e.X)
		b := x.expr(st, e.Y)
		eq := x.valEq(st, a, b, xt, x.typeOf(e.Y))
		if e.Op == token.NEQ {
			eq = c.Not(eq)
		}
		return Val{Typ: types.Typ[types.Bool], T: eq}
	case token.LSS, token.LEQ, token.GTR, token.GEQ:
		a := x.expr(st, e.X)
		b := x.expr(st, e.Y)
		return Val{Typ: types.Typ[types.Bool], T: x.compare(st, e.Op, a, b, xt)}
	case token.SHL, token.SHR:
		a := x.expr(st, e.X)
		b := x.expr(st, e.Y)
		rt := x.typeOf(e)
		return Val{Typ: rt, T: x.shift(st, e.Op, a.T, rt, b.T, x.typeOf(e.Y), exprString(e))}
	}
	a := x.expr(st, e.X)
	b := x.expr(st, e.Y)
	rt := x.typeOf(e)
	if isString(rt) && e.Op == token.ADD {
		return Val{Typ: rt, T: c.App("str_cat", a.T, b.T)}
	}
	if isFloat(rt) {
		x.abstract["floating point arithmetic"] = true
		return x.freshVal(st, "float", rt)
	}
	return Val{Typ: rt, T: x.arith(st, e.Op, a.T, b.T, rt, exprString(e))}
}

func (x *Exec) valEq(st *State, a, b Val, at, bt types.Type) *Term {
	c := x.c
	if a.IsSlice() || b.IsSlice() {
		// only comparison with nil is legal
		if a.IsSlice() && b.IsSlice() {
			// one of them is the nil literal
			if b.Arr.kind == kIntLit {
				return c.Eq(a.Arr, c.Int(0))
			}
			return c.Eq(b.Arr, c.Int(0))
		}
		if a.IsSlice() {
			return c.Eq(a.Arr, c.Int(0))
		}
		return c.Eq(b.Arr, c.Int(0))
	}
	if isObjType(at) && isObjType(bt) {
		return x.objEq(st, a.T, b.T, at)
	}
	if isFloat(at) {
		x.abstract["floating point comparison"] = true
		return c.Fresh("floatcmp", SBool)
	}
	if a.T.sort != b.T.sort {
		x.fail("comparison of different sorts %s / %s", a.T.sort, b.T.sort)
	}
	return c.Eq(a.T, b.T)
}

func (x *Exec) compare(st *State, op token.Token, a, b Val, t types.Type) *Term {
	c := x.c
	if isString(t) {
		switch op {
		case token.LSS:
			return c.App("str_lt", a.T, b.T)
		case token.GTR:
			return c.App("str_lt", b.T, a.T)
		case token.LEQ:
			return c.Not(c.App("str_lt", b.T, a.T))
		default:
			return c.Not(c.App("str_lt", a.T, b.T))
		}
	}
	if isFloat(t) {
		x.abstract["floating point comparison"] = true
		return c.Fresh("floatcmp", SBool)
	}
	_, signed, ok := intInfo(t)
	if !ok {
		x.fail("ordered comparison on %s", t)
	}
	if x.mode == "math" {
		switch op {
		case token.LSS:
			return c.Lt(a.T, b.T)
		case token.LEQ:
			return c.Le(a.T, b.T)
		case token.GTR:
			return c.Lt(b.T, a.T)
		default:
			return c.Le(b.T, a.T)
		}
	}
	pre := "bvu"
	if signed {
		pre = "bvs"
	}
	switch op {
	case token.LSS:
		return c.bvcmp(pre+"lt", a.T, b.T)
	case token.LEQ:
		return c.bvcmp(pre+"le", a.T, b.T)
	case token.GTR:
		return c.bvcmp(pre+"gt", a.T, b.T)
	default:
		return c.bvcmp(pre+"ge", a.T, b.T)
	}
}

func isPow2Minus1(v *big.Int) (int, bool) {
	if v.Sign() < 0 {
		return 0, false
	}
	p := new(big.Int).Add(v, big.NewInt(1))
	if p.BitLen() > 0 && new(big.Int).And(p, v).Sign() == 0 {
		return p.BitLen() - 1, true
	}
	return 0, false
}

func (x *Exec) uninterp(name string, rs Sort, args ...*Term) *Term {
	var ps []Sort
	for _, a := range args {
		ps = append(ps, a.sort)
	}
	x.c.DeclareFun(name, ps, rs)
	return x.c.App(name, args...)
}

func (x *Exec) arith(st *State, op token.Token, a, b *Term, t types.Type, what string) *Term {
	c := x.c
	w, signed, ok := intInfo(t)
	if !ok {
		x.fail("arithmetic on non-integer type %s (%s)", t, what)
	}
	if x.mode == "bv" {
		switch op {
		case token.ADD:
			return c.bvbin("bvadd", a, b)
		case token.SUB:
			return c.bvbin("bvsub", a, b)
		case token.MUL:
			if rc := x.rootOrCon(); rc != nil && rc.AbstractMul && !a.IsLit() && !b.IsLit() {
				if a.id > b.id { // commutative: canonical argument order
					a, b = b, a
				}
				fnm := fmt.Sprintf("umul%d", w)
				if _, ok := c.funcs[fnm]; !ok {
					c.DeclareFun(fnm, []Sort{a.sort, a.sort}, a.sort)
					v := c.Bound("v", a.sort)
					z := c.BV64(w, 0)
					one := c.BV64(w, 1)
					c.AddAxiom(fnm, c.Forall([]*Term{v}, c.And(c.Eq(c.App(fnm, z, v), z), c.Eq(c.App(fnm, v, z), z), c.Eq(c.App(fnm, one, v), v), c.Eq(c.App(fnm, v, one), v)),
						[]*Term{c.App(fnm, z, v)}, []*Term{c.App(fnm, v, z)}, []*Term{c.App(fnm, one, v)}, []*Term{c.App(fnm, v, one)}))
				}
				return x.uninterp(fnm, a.sort, a, b)
			}
			return c.bvbin("bvmul", a, b)
		case token.QUO:
			x.safety(st, "div", "divisor non-zero in "+what, c.Neq(b, c.BV64(w, 0)))
			if signed {
				return c.bvbin("bvsdiv", a, b)
			}
			return c.bvbin("bvudiv", a, b)
		case token.REM:
			x.safety(st, "div", "divisor non-zero in "+what, c.Neq(b, c.BV64(w, 0)))
			if signed {
				return c.bvbin("bvsrem", a, b)
			}
			return c.bvbin("bvurem", a, b)
		case token.AND:
			return c.bvbin("bvand", a, b)
		case token.OR:
			return c.bvbin("bvor", a, b)
		case token.XOR:
			return c.bvbin("bvxor", a, b)
		case token.AND_NOT:
			return c.bvbin("bvand", a, c.BVNot(b))
		}
		x.fail("unsupported operator %s", op)
	}
	// math mode
	var r *Term
	switch op {
	case token.ADD:
		r = c.Add(a, b)
	case token.SUB:
		r = c.Sub(a, b)
	case token.MUL:
		r = c.Mul(a, b)
	case token.QUO, token.REM:
		x.safety(st, "div", "divisor non-zero in "+what, c.Neq(b, c.Int(0)))
		q := x.goDiv(a, b, signed)
		if op == token.QUO {
			r = q
		} else {
			return c.Sub(a, c.Mul(b, q))
		}
	case token.AND:
		if b.kind == kIntLit {
			if k, ok := isPow2Minus1(b.val); ok {
				return c.Mod(a, c.IntBig(new(big.Int).Lsh(big.NewInt(1), uint(k))))
			}
		}
		if a.kind == kIntLit {
			if k, ok := isPow2Minus1(a.val); ok {
				return c.Mod(b, c.IntBig(new(big.Int).Lsh(big.NewInt(1), uint(k))))
			}
		}
		// a & (2^w - 2^k)  ==  a - a mod 2^k   (clearing the low k bits of an unsigned value)
		if !signed {
			for _, pair := range [][2]*Term{{a, b}, {b, a}} {
				if pair[1].kind == kIntLit {
					full := new(big.Int).Lsh(big.NewInt(1), uint(w))
					low := new(big.Int).Sub(full, pair[1].val) // 2^k ?
					if low.Sign() > 0 && new(big.Int).And(low, new(big.Int).Sub(low, big.NewInt(1))).Sign() == 0 {
						return c.Sub(pair[0], c.Mod(pair[0], c.IntBig(low)))
					}
				}
			}
		}
		x.abstract["bit operation & in math mode (uninterpreted)"] = true
		return x.uninterp(fmt.Sprintf("bitand%d", w), SInt, a, b)
	case token.AND_NOT:
		if b.kind == kIntLit {
			if k, ok := isPow2Minus1(b.val); ok {
				return c.Sub(a, c.Mod(a, c.IntBig(new(big.Int).Lsh(big.NewInt(1), uint(k)))))
			}
		}
		x.abstract["bit operation &^ in math mode (uninterpreted)"] = true
		return x.uninterp(fmt.Sprintf("bitandnot%d", w), SInt, a, b)
	case token.OR:
		x.abstract["bit operation | in math mode (uninterpreted)"] = true
		return x.uninterp(fmt.Sprintf("bitor%d", w), SInt, a, b)
	case token.XOR:
		x.abstract["bit operation ^ in math mode (uninterpreted)"] = true
		return x.uninterp(fmt.Sprintf("bitxor%d", w), SInt, a, b)
	default:
		x.fail("unsupported operator %s", op)
	}
	x.overflowCheck(st, r, t, what)
	return r
}

// goDiv: Go's truncated division on mathematical integers.
func (x *Exec) goDiv(a, b *Term, signed bool) *Term {
	c := x.c
	if !signed {
		return c.Div(a, b)
	}
	if b.kind == kIntLit && b.val.Sign() > 0 {
		if a.kind == kIntLit {
			return c.IntBig(new(big.Int).Quo(a.val, b.val))
		}
		return c.Ite(c.Ge(a, c.Int(0)), c.Div(a, b), c.Neg(c.Div(c.Neg(a), b)))
	}
	// general: sign(a)*sign(b) * (|a| div |b|)
	absA := c.Ite(c.Ge(a, c.Int(0)), a, c.Neg(a))
	absB := c.Ite(c.Ge(b, c.Int(0)), b, c.Neg(b))
	q := c.Div(absA, absB)
	return c.Ite(c.Eq(c.Ge(a, c.Int(0)), c.Ge(b, c.Int(0))), q, c.Neg(q))
}

func (x *Exec) shift(st *State, op token.Token, a *Term, at types.Type, n *Term, nt types.Type, what string) *Term {
	c := x.c
	w, signed, ok := intInfo(at)
	if !ok {
		x.fail("shift of non-integer %s", at)
	}
	if x.mode == "bv" {
		nw := n.sort.BVWidth()
		var cnt *Term
		switch {
		case nw == w:
			cnt = n
		case nw < w:
			cnt = c.ZeroExt(w-nw, n)
		default:
			big_ := c.bvcmp("bvuge", n, c.BV64(nw, int64(w)))
			cnt = c.Ite(big_, c.BV64(w, int64(w)), c.Extract(w-1, 0, n))
		}
		switch {
		case op == token.SHL:
			return c.bvbin("bvshl", a, cnt)
		case signed:
			return c.bvbin("bvashr", a, cnt)
		default:
			return c.bvbin("bvlshr", a, cnt)
		}
	}
	// math: only constant shift counts are linear
	if n.kind != kIntLit {
		x.abstract["shift by a non-constant in math mode (uninterpreted)"] = true
		name := "shl"
		if op == token.SHR {
			name = "shr"
		}
		return x.uninterp(fmt.Sprintf("%s%d", name, w), SInt, a, n)
	}
	k := uint(n.val.Int64())
	p := c.IntBig(new(big.Int).Lsh(big.NewInt(1), k))
	if op == token.SHR {
		return c.Div(a, p)
	}
	r := c.Mul(a, p)
	if signed {
		x.overflowCheck(st, r, at, what)
		return r
	}
	return c.Mod(r, c.IntBig(new(big.Int).Lsh(big.NewInt(1), uint(w))))
}

func (x *Exec) indexExpr(st *State, e *ast.IndexExpr) Val {
	bt := x.typeOf(e.X)
	switch u := bt.Underlying().(type) {
	case *types.Basic: // string
		s := x.expr(st, e.X)
		i := x.toIdx(st, x.expr(st, e.Index))
		x.boundsCheck(st, i, x.c.App("str_len", s.T), exprString(e))
		t := x.c.Select(x.c.App("str_bytes", s.T), i)
		x.noteRead(st, t, types.Typ[types.Uint8])
		return Val{Typ: types.Typ[types.Uint8], T: t}
	case *types.Map:
		m := x.expr(st, e.X)
		k := x.expr(st, e.Index)
		v, _ := x.mapRead(st, m.T, k, typeKey(bt), u.Elem())
		return v
	}
	lv := x.lvalue(st, e)
	return x.load(st, lv)
}

func (x *Exec) sliceExpr(st *State, e *ast.SliceExpr) Val {
	c := x.c
	bt := x.typeOf(e.X)
	zero := x.idxLit(0)
	evalIdx := func(ie ast.Expr, def *Term) *Term {
		if ie == nil {
			return def
		}
		return x.toIdx(st, x.expr(st, ie))
	}
	if isString(bt) {
		s := x.expr(st, e.X)
		n := c.App("str_len", s.T)
		lo := evalIdx(e.Low, zero)
		hi := evalIdx(e.High, n)
		x.safety(st, "slice", "slice bounds: "+exprString(e), c.And(x.idxLe(zero, lo), x.idxLe(lo, hi), x.idxLe(hi, n)))
		return Val{Typ: x.typeOf(e), T: c.App("str_sub", s.T, lo, hi)}
	}
	var base Val
	switch u := bt.Underlying().(type) {
	case *types.Slice:
		base = x.expr(st, e.X)
	case *types.Array:
		lv := x.lvalue(st, e.X)
		n := x.idxLit(u.Len())
		base = Val{Arr: lv.ref, Off: zero, Len: n, Cap: n}
	case *types.Pointer:
		at, ok := u.Elem().Underlying().(*types.Array)
		if !ok {
			x.fail("slice of %s", bt)
		}
		p := x.expr(st, e.X)
		x.nilCheck(st, p.T, exprString(e.X))
		n := x.idxLit(at.Len())
		base = Val{Arr: p.T, Off: zero, Len: n, Cap: n}
	default:
		x.fail("slice of %s", bt)
	}
	lo := evalIdx(e.Low, zero)
	hi := evalIdx(e.High, base.Len)
	mx := base.Cap
	if e.Max != nil {
		mx = evalIdx(e.Max, base.Cap)
	}
	x.safety(st, "slice", "slice bounds: "+exprString(e), c.And(x.idxLe(zero, lo), x.idxLe(lo, hi), x.idxLe(hi, mx), x.idxLe(mx, base.Cap)))
	return Val{Typ: x.typeOf(e), Arr: base.Arr, Off: x.idxAdd(base.Off, lo), Len: x.idxSub(hi, lo), Cap: x.idxSub(mx, lo)}
}

func (x *Exec) compositeLit(st *State, e *ast.CompositeLit) Val {
	t := x.typeOf(e)
	switch u := t.Underlying().(type) {
	case *types.Struct:
		r := x.allocRef(st, "lit")
		x.zeroObject(st, r, t)
		sk := typeKey(t)
		for i, el := range e.Elts {
			var f *types.Var
			var ve ast.Expr
			if kv, ok := el.(*ast.KeyValueExpr); ok {
				name := kv.Key.(*ast.Ident).Name
				for j := 0; j < u.NumFields(); j++ {
					if u.Field(j).Name() == name {
						f = u.Field(j)
					}
				}
				ve = kv.Value
			} else {
				f = u.Field(i)
				ve = el
			}
			v := x.exprConv(st, ve, f.Type())
			x.storeField(st, r, sk, f.Name(), f.Type(), v)
		}
		return Val{Typ: t, T: r}
	case *types.Slice:
		arr := x.allocRef(st, "slicelit")
		n := int64(len(e.Elts))
		for i, el := range e.Elts {
			if _, ok := el.(*ast.KeyValueExpr); ok {
				x.fail("keyed slice literal")
			}
			v := x.exprConv(st, el, u.Elem())
			x.storeElem(st, arr, x.idxLit(int64(i)), u.Elem(), v)
		}
		return Val{Typ: t, Arr: arr, Off: x.idxLit(0), Len: x.idxLit(n), Cap: x.idxLit(n)}
	case *types.Array:
		r := x.allocRef(st, "arrlit")
		x.zeroObject(st, r, t)
		for i, el := range e.Elts {
			if _, ok := el.(*ast.KeyValueExpr); ok {
				x.fail("keyed array literal")
			}
			v := x.exprConv(st, el, u.Elem())
			x.storeElem(st, r, x.idxLit(int64(i)), u.Elem(), v)
		}
		return Val{Typ: t, T: r}
	case *types.Map:
		r := x.newMap(st, t, u)
		for _, el := range e.Elts {
			kv := el.(*ast.KeyValueExpr)
			k := x.expr(st, kv.Key)
			v := x.exprConv(st, kv.Value, u.Elem())
			x.mapWrite(st, r, k, typeKey(t), u.Elem(), v)
		}
		return Val{Typ: t, T: r}
	}
	x.fail("unsupported composite literal of type %s", t)
	return Val{}
}

func (x *Exec) newMap(st *State, t types.Type, u *types.Map) *Term {
	r := x.allocRef(st, "map")
	ks := x.scalarSort(u.Key())
	dn := "MD." + typeKey(t)
	D := x.heapGet(st, dn, SArr(SInt, SArr(ks, SBool)))
	empty := x.c.app(fmt.Sprintf("(as const %s)", SArr(ks, SBool)), SArr(ks, SBool), x.c.False())
	x.heapSet(st, dn, x.c.Store(D, r, empty))
	return r
}

// exprConv evaluates e and adapts it to the target type where Go does so implicitly
// (untyped constants are already typed by go/types; nil to slice).
func (x *Exec) exprConv(st *State, e ast.Expr, target types.Type) Val {
	v := x.expr(st, e)
	if isSliceT(target) && !v.IsSlice() {
		return x.zeroValNoAlloc(target)
	}
	return v
}
