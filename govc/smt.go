package main

// Hash-consed SMT term DAG with light simplification and an SMT-LIB 2 printer.

import (
	"fmt"
	"math/big"
	"sort"
	"strings"
)

type Sort string

const (
	SBool Sort = "Bool"
	SInt  Sort = "Int"
	SStr  Sort = "Str" // uninterpreted sort for Go strings
)

func SBV(n int) Sort             { return Sort(fmt.Sprintf("(_ BitVec %d)", n)) }
func SArr(i, e Sort) Sort        { return Sort(fmt.Sprintf("(Array %s %s)", i, e)) }
func (s Sort) IsBV() bool        { return strings.HasPrefix(string(s), "(_ BitVec ") }
func (s Sort) IsArray() bool     { return strings.HasPrefix(string(s), "(Array ") }
func (s Sort) BVWidth() int      { var n int; fmt.Sscanf(string(s), "(_ BitVec %d)", &n); return n }
func (s Sort) ArrayParts() (Sort, Sort) {
	// (Array I E) where I, E may be nested
	str := string(s)
	str = str[len("(Array ") : len(str)-1]
	depth := 0
	for i, c := range str {
		switch c {
		case '(':
			depth++
		case ')':
			depth--
		case ' ':
			if depth == 0 {
				return Sort(str[:i]), Sort(str[i+1:])
			}
		}
	}
	panic("bad array sort " + string(s))
}

type Term struct {
	id    int
	op    string // operator / symbol name / literal text
	kind  tkind
	args  []*Term
	sort  Sort
	val   *big.Int // for literals
	bvars []*Term  // quantifier: bound variables
	pats  [][]*Term
	bound bool // contains a bound variable
	size  int
}

type tkind int

const (
	kApp    tkind = iota // op applied to args (builtin or declared function)
	kConst               // declared constant (free symbol)
	kBound               // bound variable
	kIntLit
	kBVLit
	kBoolLit
	kForall
	kExists
)

// FuncDecl describes a declared/defined function symbol.
type FuncDecl struct {
	Name   string
	Params []Sort
	Ret    Sort
	// Definition (optional)
	ParamNames []string
	Body       *Term
	Rec        bool
	Deps       []string // other defined functions used by the body
}

type Ctx struct {
	tab    map[string]*Term
	nextID int
	consts map[string]Sort
	funcs  map[string]*FuncDecl
	fresh  map[string]int
	axioms map[string][]*Term // axioms keyed by the "+"-joined function symbols that must all occur for inclusion
	sorts  map[string]bool    // declared uninterpreted sorts
	rewrite map[int]*Term     // term id -> replacement (configuration enumeration)
	fbCache map[int]map[int]bool // free bound variables per term id
}

func NewCtx() *Ctx {
	return &Ctx{tab: map[string]*Term{}, consts: map[string]Sort{}, funcs: map[string]*FuncDecl{}, fresh: map[string]int{}, axioms: map[string][]*Term{}, sorts: map[string]bool{}, rewrite: map[int]*Term{}}
}

func (c *Ctx) intern(t *Term) *Term {
	var sb strings.Builder
	fmt.Fprintf(&sb, "%d|%s|%s|", t.kind, t.op, t.sort)
	for _, a := range t.args {
		fmt.Fprintf(&sb, "%d,", a.id)
	}
	if t.kind == kForall || t.kind == kExists {
		sb.WriteString("|b")
		for _, a := range t.bvars {
			fmt.Fprintf(&sb, "%d,", a.id)
		}
		for _, p := range t.pats {
			sb.WriteString("|p")
			for _, a := range p {
				fmt.Fprintf(&sb, "%d,", a.id)
			}
		}
	}
	k := sb.String()
	if e, ok := c.tab[k]; ok {
		return e
	}
	c.nextID++
	t.id = c.nextID
	t.size = 1
	for _, a := range t.args {
		if a.bound {
			t.bound = true
		}
		t.size += a.size
		if t.size > 1<<30 {
			t.size = 1 << 30
		}
	}
	if t.kind == kBound {
		t.bound = true
	}
	c.tab[k] = t
	return t
}

// ---- leaves ----

func (c *Ctx) Const(name string, s Sort) *Term {
	if old, ok := c.consts[name]; ok && old != s {
		panic(fmt.Sprintf("constant %s redeclared with sort %s (was %s)", name, s, old))
	}
	c.consts[name] = s
	return c.intern(&Term{op: name, kind: kConst, sort: s})
}

func sanitize(s string) string {
	var sb strings.Builder
	for _, r := range s {
		if r >= 'a' && r <= 'z' || r >= 'A' && r <= 'Z' || r >= '0' && r <= '9' || r == '_' || r == '.' || r == '$' {
			sb.WriteRune(r)
		} else {
			sb.WriteByte('_')
		}
	}
	return sb.String()
}

func (c *Ctx) Fresh(prefix string, s Sort) *Term {
	prefix = sanitize(prefix)
	c.fresh[prefix]++
	return c.Const(fmt.Sprintf("%s!%d", prefix, c.fresh[prefix]), s)
}

func (c *Ctx) Bound(name string, s Sort) *Term {
	c.fresh["$b"]++
	return c.intern(&Term{op: fmt.Sprintf("%s?%d", sanitize(name), c.fresh["$b"]), kind: kBound, sort: s})
}

func (c *Ctx) True() *Term  { return c.intern(&Term{op: "true", kind: kBoolLit, sort: SBool}) }
func (c *Ctx) False() *Term { return c.intern(&Term{op: "false", kind: kBoolLit, sort: SBool}) }
func (c *Ctx) Bool(b bool) *Term {
	if b {
		return c.True()
	}
	return c.False()
}

func (c *Ctx) Int(v int64) *Term { return c.IntBig(big.NewInt(v)) }
func (c *Ctx) IntBig(v *big.Int) *Term {
	return c.intern(&Term{op: v.String(), kind: kIntLit, sort: SInt, val: new(big.Int).Set(v)})
}

func (c *Ctx) BV(width int, v *big.Int) *Term {
	m := new(big.Int).Lsh(big.NewInt(1), uint(width))
	x := new(big.Int).Mod(v, m)
	return c.intern(&Term{op: fmt.Sprintf("bv%s_%d", x.String(), width), kind: kBVLit, sort: SBV(width), val: x})
}
func (c *Ctx) BV64(width int, v int64) *Term { return c.BV(width, big.NewInt(v)) }

func (t *Term) IsTrue() bool  { return t.kind == kBoolLit && t.op == "true" }
func (t *Term) IsFalse() bool { return t.kind == kBoolLit && t.op == "false" }
func (t *Term) IsLit() bool   { return t.kind == kIntLit || t.kind == kBVLit || t.kind == kBoolLit }
func (t *Term) Sort() Sort    { return t.sort }

// signed value of a BV literal
func (t *Term) SignedVal() *big.Int {
	if t.kind == kIntLit {
		return t.val
	}
	w := t.sort.BVWidth()
	half := new(big.Int).Lsh(big.NewInt(1), uint(w-1))
	if t.val.Cmp(half) >= 0 {
		return new(big.Int).Sub(t.val, new(big.Int).Lsh(big.NewInt(1), uint(w)))
	}
	return t.val
}

// ---- generic application ----

func (c *Ctx) app(op string, s Sort, args ...*Term) *Term {
	t := c.intern(&Term{op: op, kind: kApp, args: args, sort: s})
	if len(c.rewrite) > 0 {
		if r, ok := c.rewrite[t.id]; ok {
			return r
		}
	}
	return t
}

// App applies a declared (uninterpreted or defined) function.
func (c *Ctx) App(fn string, args ...*Term) *Term {
	d, ok := c.funcs[fn]
	if !ok {
		panic("undeclared function " + fn)
	}
	if len(args) != len(d.Params) {
		panic(fmt.Sprintf("arity mismatch for %s: %d vs %d", fn, len(args), len(d.Params)))
	}
	for i, a := range args {
		if a.sort != d.Params[i] {
			panic(fmt.Sprintf("sort mismatch for %s arg %d: %s vs %s", fn, i, a.sort, d.Params[i]))
		}
	}
	return c.app(fn, d.Ret, args...)
}

func (c *Ctx) DeclareFun(name string, params []Sort, ret Sort) {
	if d, ok := c.funcs[name]; ok {
		if d.Ret != ret || len(d.Params) != len(params) {
			panic("function redeclared differently: " + name)
		}
		return
	}
	c.funcs[name] = &FuncDecl{Name: name, Params: params, Ret: ret}
}

// AddAxiom registers an axiom that is included in a script only if every function named in
// trigger ("f" or "f+g") occurs in the obligation itself (not merely in other axioms).
func (c *Ctx) AddAxiom(trigger string, ax *Term) { c.axioms[trigger] = append(c.axioms[trigger], ax) }

// ---- booleans ----

func (c *Ctx) Not(a *Term) *Term {
	if a.IsTrue() {
		return c.False()
	}
	if a.IsFalse() {
		return c.True()
	}
	if a.kind == kApp && a.op == "not" {
		return a.args[0]
	}
	return c.app("not", SBool, a)
}

func (c *Ctx) And(as ...*Term) *Term {
	var out []*Term
	seen := map[int]bool{}
	for _, a := range as {
		if a.sort != SBool {
			panic("And: non-bool " + string(a.sort))
		}
		if a.IsFalse() {
			return c.False()
		}
		if a.IsTrue() || seen[a.id] {
			continue
		}
		if a.kind == kApp && a.op == "and" {
			for _, b := range a.args {
				if !seen[b.id] {
					seen[b.id] = true
					out = append(out, b)
				}
			}
			continue
		}
		seen[a.id] = true
		out = append(out, a)
	}
	for _, a := range out {
		if a.kind == kApp && a.op == "not" && seen[a.args[0].id] {
			return c.False()
		}
	}
	switch len(out) {
	case 0:
		return c.True()
	case 1:
		return out[0]
	}
	return c.app("and", SBool, out...)
}

func (c *Ctx) Or(as ...*Term) *Term {
	var out []*Term
	seen := map[int]bool{}
	for _, a := range as {
		if a.sort != SBool {
			panic("Or: non-bool")
		}
		if a.IsTrue() {
			return c.True()
		}
		if a.IsFalse() || seen[a.id] {
			continue
		}
		if a.kind == kApp && a.op == "or" {
			for _, b := range a.args {
				if !seen[b.id] {
					seen[b.id] = true
					out = append(out, b)
				}
			}
			continue
		}
		seen[a.id] = true
		out = append(out, a)
	}
	for _, a := range out {
		if a.kind == kApp && a.op == "not" && seen[a.args[0].id] {
			return c.True()
		}
	}
	switch len(out) {
	case 0:
		return c.False()
	case 1:
		return out[0]
	}
	return c.app("or", SBool, out...)
}

func (c *Ctx) Implies(a, b *Term) *Term {
	if a.IsTrue() {
		return b
	}
	if a.IsFalse() || b.IsTrue() {
		return c.True()
	}
	if b.IsFalse() {
		return c.Not(a)
	}
	return c.app("=>", SBool, a, b)
}

func (c *Ctx) Ite(cond, a, b *Term) *Term {
	if a.sort != b.sort {
		panic(fmt.Sprintf("ite sort mismatch %s vs %s", a.sort, b.sort))
	}
	if cond.IsTrue() {
		return a
	}
	if cond.IsFalse() {
		return b
	}
	if a == b {
		return a
	}
	if a.sort == SBool {
		if a.IsTrue() && b.IsFalse() {
			return cond
		}
		if a.IsFalse() && b.IsTrue() {
			return c.Not(cond)
		}
		if a.IsTrue() {
			return c.Or(cond, b)
		}
		if b.IsFalse() {
			return c.And(cond, a)
		}
		if a.IsFalse() {
			return c.And(c.Not(cond), b)
		}
		if b.IsTrue() {
			return c.Or(c.Not(cond), a)
		}
	}
	// ite(c, x, ite(c, y, z)) = ite(c, x, z)
	if b.kind == kApp && b.op == "ite" && b.args[0] == cond {
		return c.Ite(cond, a, b.args[2])
	}
	if a.kind == kApp && a.op == "ite" && a.args[0] == cond {
		return c.Ite(cond, a.args[1], b)
	}
	return c.app("ite", a.sort, cond, a, b)
}

func (c *Ctx) Eq(a, b *Term) *Term {
	if a.sort != b.sort {
		panic(fmt.Sprintf("eq sort mismatch %s vs %s (%s = %s)", a.sort, b.sort, c.Show(a), c.Show(b)))
	}
	if a == b {
		return c.True()
	}
	if a.IsLit() && b.IsLit() {
		if a.sort == SBool {
			return c.Bool(a.op == b.op)
		}
		return c.Bool(a.val.Cmp(b.val) == 0)
	}
	if a.sort == SBool {
		if a.IsTrue() {
			return b
		}
		if b.IsTrue() {
			return a
		}
		if a.IsFalse() {
			return c.Not(b)
		}
		if b.IsFalse() {
			return c.Not(a)
		}
	}
	if a.id > b.id {
		a, b = b, a
	}
	return c.app("=", SBool, a, b)
}

func (c *Ctx) Neq(a, b *Term) *Term { return c.Not(c.Eq(a, b)) }

// ---- integers ----

func (c *Ctx) Add(a, b *Term) *Term {
	if a.kind == kIntLit && b.kind == kIntLit {
		return c.IntBig(new(big.Int).Add(a.val, b.val))
	}
	if a.kind == kIntLit && a.val.Sign() == 0 {
		return b
	}
	if b.kind == kIntLit && b.val.Sign() == 0 {
		return a
	}
	// (x + c1) + c2
	if b.kind == kIntLit && a.kind == kApp && a.op == "+" && len(a.args) == 2 && a.args[1].kind == kIntLit {
		return c.Add(a.args[0], c.IntBig(new(big.Int).Add(a.args[1].val, b.val)))
	}
	if a.kind == kIntLit {
		a, b = b, a
	}
	return c.app("+", SInt, a, b)
}
func (c *Ctx) Sub(a, b *Term) *Term {
	if a.kind == kIntLit && b.kind == kIntLit {
		return c.IntBig(new(big.Int).Sub(a.val, b.val))
	}
	if b.kind == kIntLit {
		return c.Add(a, c.IntBig(new(big.Int).Neg(b.val)))
	}
	if a == b {
		return c.Int(0)
	}
	return c.app("-", SInt, a, b)
}
func (c *Ctx) Neg(a *Term) *Term { return c.Sub(c.Int(0), a) }
func (c *Ctx) Mul(a, b *Term) *Term {
	if a.kind == kIntLit && b.kind == kIntLit {
		return c.IntBig(new(big.Int).Mul(a.val, b.val))
	}
	if a.kind == kIntLit {
		a, b = b, a
	}
	if b.kind == kIntLit {
		if b.val.Sign() == 0 {
			return c.Int(0)
		}
		if b.val.Cmp(big.NewInt(1)) == 0 {
			return a
		}
	}
	return c.app("*", SInt, a, b)
}

// Euclidean/floor division as in SMT-LIB (divisor assumed positive by callers).
func (c *Ctx) Div(a, b *Term) *Term {
	if a.kind == kIntLit && b.kind == kIntLit && b.val.Sign() > 0 {
		q := new(big.Int)
		m := new(big.Int)
		q.DivMod(a.val, b.val, m)
		return c.IntBig(q)
	}
	if b.kind == kIntLit && b.val.Cmp(big.NewInt(1)) == 0 {
		return a
	}
	return c.app("div", SInt, a, b)
}
func (c *Ctx) Mod(a, b *Term) *Term {
	if a.kind == kIntLit && b.kind == kIntLit && b.val.Sign() > 0 {
		q := new(big.Int)
		m := new(big.Int)
		q.DivMod(a.val, b.val, m)
		return c.IntBig(m)
	}
	return c.app("mod", SInt, a, b)
}
func (c *Ctx) Le(a, b *Term) *Term {
	if a.kind == kIntLit && b.kind == kIntLit {
		return c.Bool(a.val.Cmp(b.val) <= 0)
	}
	if a == b {
		return c.True()
	}
	return c.app("<=", SBool, a, b)
}
func (c *Ctx) Lt(a, b *Term) *Term {
	if a.kind == kIntLit && b.kind == kIntLit {
		return c.Bool(a.val.Cmp(b.val) < 0)
	}
	if a == b {
		return c.False()
	}
	return c.app("<", SBool, a, b)
}
func (c *Ctx) Ge(a, b *Term) *Term { return c.Le(b, a) }
func (c *Ctx) Gt(a, b *Term) *Term { return c.Lt(b, a) }

// ---- bit-vectors ----

func (c *Ctx) bvbin(op string, a, b *Term) *Term {
	if a.sort != b.sort {
		panic(fmt.Sprintf("%s sort mismatch %s vs %s", op, a.sort, b.sort))
	}
	w := a.sort.BVWidth()
	if a.kind == kBVLit && b.kind == kBVLit {
		if r := foldBV(op, w, a, b); r != nil {
			return c.BV(w, r)
		}
	}
	zero := func(t *Term) bool { return t.kind == kBVLit && t.val.Sign() == 0 }
	switch op {
	case "bvadd", "bvor", "bvxor":
		if zero(a) {
			return b
		}
		if zero(b) {
			return a
		}
	case "bvsub", "bvshl", "bvlshr", "bvashr":
		if zero(b) {
			return a
		}
	case "bvand", "bvmul":
		if zero(a) || zero(b) {
			return c.BV64(w, 0)
		}
	}
	return c.app(op, a.sort, a, b)
}

func foldBV(op string, w int, a, b *Term) *big.Int {
	x, y := a.val, b.val
	m := new(big.Int).Lsh(big.NewInt(1), uint(w))
	r := new(big.Int)
	switch op {
	case "bvadd":
		r.Add(x, y)
	case "bvsub":
		r.Sub(x, y)
	case "bvmul":
		r.Mul(x, y)
	case "bvand":
		r.And(x, y)
	case "bvor":
		r.Or(x, y)
	case "bvxor":
		r.Xor(x, y)
	case "bvshl":
		if y.Cmp(big.NewInt(int64(w))) >= 0 {
			return big.NewInt(0)
		}
		r.Lsh(x, uint(y.Int64()))
	case "bvlshr":
		if y.Cmp(big.NewInt(int64(w))) >= 0 {
			return big.NewInt(0)
		}
		r.Rsh(x, uint(y.Int64()))
	case "bvashr":
		sx := a.SignedVal()
		sh := uint(w)
		if y.Cmp(big.NewInt(int64(w))) < 0 {
			sh = uint(y.Int64())
		}
		r.Rsh(sx, sh)
	case "bvudiv":
		if y.Sign() == 0 {
			return nil
		}
		r.Div(x, y)
	case "bvurem":
		if y.Sign() == 0 {
			return nil
		}
		r.Mod(x, y)
	case "bvsdiv":
		if y.Sign() == 0 {
			return nil
		}
		r.Quo(a.SignedVal(), b.SignedVal())
	case "bvsrem":
		if y.Sign() == 0 {
			return nil
		}
		r.Rem(a.SignedVal(), b.SignedVal())
	default:
		return nil
	}
	return r.Mod(r, m)
}

func (c *Ctx) bvcmp(op string, a, b *Term) *Term {
	if a.sort != b.sort {
		panic(fmt.Sprintf("%s sort mismatch %s vs %s", op, a.sort, b.sort))
	}
	if a.kind == kBVLit && b.kind == kBVLit {
		var x, y *big.Int
		if strings.HasPrefix(op, "bvs") {
			x, y = a.SignedVal(), b.SignedVal()
		} else {
			x, y = a.val, b.val
		}
		cmp := x.Cmp(y)
		switch op[3:] {
		case "lt":
			return c.Bool(cmp < 0)
		case "le":
			return c.Bool(cmp <= 0)
		case "gt":
			return c.Bool(cmp > 0)
		case "ge":
			return c.Bool(cmp >= 0)
		}
	}
	if a == b {
		switch op[3:] {
		case "lt", "gt":
			return c.False()
		default:
			return c.True()
		}
	}
	return c.app(op, SBool, a, b)
}

func (c *Ctx) BVNot(a *Term) *Term {
	if a.kind == kBVLit {
		w := a.sort.BVWidth()
		m := new(big.Int).Lsh(big.NewInt(1), uint(w))
		m.Sub(m, big.NewInt(1))
		return c.BV(w, new(big.Int).Xor(a.val, m))
	}
	return c.app("bvnot", a.sort, a)
}
func (c *Ctx) BVNeg(a *Term) *Term {
	if a.kind == kBVLit {
		return c.BV(a.sort.BVWidth(), new(big.Int).Neg(a.val))
	}
	return c.app("bvneg", a.sort, a)
}

func (c *Ctx) Extract(hi, lo int, a *Term) *Term {
	w := a.sort.BVWidth()
	if lo == 0 && hi == w-1 {
		return a
	}
	if a.kind == kBVLit {
		r := new(big.Int).Rsh(a.val, uint(lo))
		return c.BV(hi-lo+1, r)
	}
	return c.app(fmt.Sprintf("(_ extract %d %d)", hi, lo), SBV(hi-lo+1), a)
}
func (c *Ctx) ZeroExt(n int, a *Term) *Term {
	if n == 0 {
		return a
	}
	w := a.sort.BVWidth()
	if a.kind == kBVLit {
		return c.BV(w+n, a.val)
	}
	return c.app(fmt.Sprintf("(_ zero_extend %d)", n), SBV(w+n), a)
}
func (c *Ctx) SignExt(n int, a *Term) *Term {
	if n == 0 {
		return a
	}
	w := a.sort.BVWidth()
	if a.kind == kBVLit {
		return c.BV(w+n, a.SignedVal())
	}
	return c.app(fmt.Sprintf("(_ sign_extend %d)", n), SBV(w+n), a)
}

// ---- arrays ----

func (c *Ctx) Select(a, i *Term) *Term {
	is, es := a.sort.ArrayParts()
	if i.sort != is {
		panic(fmt.Sprintf("select index sort %s, array %s", i.sort, a.sort))
	}
	// read-over-write simplification
	cur := a
	for cur.kind == kApp && cur.op == "store" {
		j := cur.args[1]
		if j == i {
			return cur.args[2]
		}
		if j.IsLit() && i.IsLit() { // distinct literals
			cur = cur.args[0]
			continue
		}
		if distinctOffsets(j, i) {
			cur = cur.args[0]
			continue
		}
		break
	}
	if cur.kind == kApp && cur.op == "ite" && cur.sort.IsArray() && cur.size < 64 {
		// push select into small ite trees only when a branch simplifies; otherwise keep
	}
	return c.app("select", es, cur, i)
}

// distinctOffsets: syntactic check x+c1 vs x+c2 with c1 != c2 (Int terms or bvadd with literals)
func distinctOffsets(a, b *Term) bool {
	base := func(t *Term) (*Term, *big.Int) {
		if t.kind == kApp && (t.op == "+" || t.op == "bvadd") && len(t.args) == 2 && t.args[1].IsLit() {
			return t.args[0], t.args[1].val
		}
		if t.kind == kApp && t.op == "bvadd" && len(t.args) == 2 && t.args[0].IsLit() {
			return t.args[1], t.args[0].val
		}
		return t, big.NewInt(0)
	}
	if a.sort != SInt {
		// for bit-vectors x+c1 != x+c2 also holds (mod 2^w, c1 != c2 both < 2^w)
	}
	ba, ca := base(a)
	bb, cb := base(b)
	return ba == bb && ca.Cmp(cb) != 0
}

func (c *Ctx) Store(a, i, v *Term) *Term {
	is, es := a.sort.ArrayParts()
	if i.sort != is || v.sort != es {
		panic(fmt.Sprintf("store sorts: array %s idx %s val %s", a.sort, i.sort, v.sort))
	}
	if a.kind == kApp && a.op == "store" && a.args[1] == i {
		return c.Store(a.args[0], i, v)
	}
	if v.kind == kApp && v.op == "select" && v.args[0] == a && v.args[1] == i {
		return a
	}
	return c.app("store", a.sort, a, i, v)
}

// ---- quantifiers ----

func (c *Ctx) Forall(vars []*Term, body *Term, pats ...[]*Term) *Term {
	if body.IsTrue() {
		return body
	}
	if !body.bound {
		return body
	}
	t := &Term{op: "forall", kind: kForall, args: []*Term{body}, sort: SBool, bvars: vars, pats: pats}
	r := c.intern(t)
	r.bound = c.hasFreeBound(r)
	return r
}
func (c *Ctx) Exists(vars []*Term, body *Term) *Term {
	if !body.bound {
		return body
	}
	t := &Term{op: "exists", kind: kExists, args: []*Term{body}, sort: SBool, bvars: vars}
	r := c.intern(t)
	r.bound = c.hasFreeBound(r)
	return r
}

// hasFreeBound reports whether quantifier term t still has free bound variables (nested quantifiers).
func (c *Ctx) hasFreeBound(t *Term) bool {
	return len(c.freeBound(t)) > 0
}

// freeBound: ids of the bound variables occurring free in t (memoised per term: terms are immutable).
func (c *Ctx) freeBound(t *Term) map[int]bool {
	if t.kind == kBound {
		return map[int]bool{t.id: true}
	}
	if !t.bound && t.kind != kForall && t.kind != kExists {
		return nil
	}
	if c.fbCache == nil {
		c.fbCache = map[int]map[int]bool{}
	}
	if r, ok := c.fbCache[t.id]; ok {
		return r
	}
	var out map[int]bool
	add := func(m map[int]bool) {
		for k := range m {
			if out == nil {
				out = map[int]bool{}
			}
			out[k] = true
		}
	}
	if t.kind == kForall || t.kind == kExists {
		inner := c.freeBound(t.args[0])
		own := map[int]bool{}
		for _, v := range t.bvars {
			own[v.id] = true
		}
		for k := range inner {
			if !own[k] {
				if out == nil {
					out = map[int]bool{}
				}
				out[k] = true
			}
		}
	} else {
		for _, a := range t.args {
			add(c.freeBound(a))
		}
	}
	c.fbCache[t.id] = out
	return out
}

// Subst replaces constants/bound variables by terms (by id) throughout t.
func (c *Ctx) Subst(t *Term, m map[int]*Term) *Term {
	memo := map[int]*Term{}
	var rec func(x *Term) *Term
	rec = func(x *Term) *Term {
		if r, ok := m[x.id]; ok {
			return r
		}
		if len(x.args) == 0 {
			return x
		}
		if r, ok := memo[x.id]; ok {
			return r
		}
		nargs := make([]*Term, len(x.args))
		changed := false
		for i, a := range x.args {
			nargs[i] = rec(a)
			if nargs[i] != a {
				changed = true
			}
		}
		var r *Term
		if !changed {
			r = x
		} else if x.kind == kForall || x.kind == kExists {
			var np [][]*Term
			for _, p := range x.pats {
				var q []*Term
				for _, a := range p {
					q = append(q, rec(a))
				}
				np = append(np, q)
			}
			if x.kind == kForall {
				r = c.Forall(x.bvars, nargs[0], np...)
			} else {
				r = c.Exists(x.bvars, nargs[0])
			}
		} else {
			r = c.rebuild(x, nargs)
		}
		memo[x.id] = r
		return r
	}
	return rec(t)
}

// rebuild re-applies the smart constructors so that simplification happens after substitution.
func (c *Ctx) rebuild(x *Term, a []*Term) *Term {
	switch x.op {
	case "not":
		return c.Not(a[0])
	case "and":
		return c.And(a...)
	case "or":
		return c.Or(a...)
	case "=>":
		return c.Implies(a[0], a[1])
	case "ite":
		return c.Ite(a[0], a[1], a[2])
	case "=":
		return c.Eq(a[0], a[1])
	case "+":
		return c.Add(a[0], a[1])
	case "-":
		return c.Sub(a[0], a[1])
	case "*":
		return c.Mul(a[0], a[1])
	case "div":
		return c.Div(a[0], a[1])
	case "mod":
		return c.Mod(a[0], a[1])
	case "<=":
		return c.Le(a[0], a[1])
	case "<":
		return c.Lt(a[0], a[1])
	case "select":
		return c.Select(a[0], a[1])
	case "store":
		return c.Store(a[0], a[1], a[2])
	case "bvadd", "bvsub", "bvmul", "bvand", "bvor", "bvxor", "bvshl", "bvlshr", "bvashr", "bvudiv", "bvurem", "bvsdiv", "bvsrem":
		return c.bvbin(x.op, a[0], a[1])
	case "bvult", "bvule", "bvugt", "bvuge", "bvslt", "bvsle", "bvsgt", "bvsge":
		return c.bvcmp(x.op, a[0], a[1])
	case "bvnot":
		return c.BVNot(a[0])
	case "bvneg":
		return c.BVNeg(a[0])
	}
	if strings.HasPrefix(x.op, "(_ extract ") {
		var hi, lo int
		fmt.Sscanf(x.op, "(_ extract %d %d)", &hi, &lo)
		return c.Extract(hi, lo, a[0])
	}
	if strings.HasPrefix(x.op, "(_ zero_extend ") {
		var n int
		fmt.Sscanf(x.op, "(_ zero_extend %d)", &n)
		return c.ZeroExt(n, a[0])
	}
	if strings.HasPrefix(x.op, "(_ sign_extend ") {
		var n int
		fmt.Sscanf(x.op, "(_ sign_extend %d)", &n)
		return c.SignExt(n, a[0])
	}
	return c.app(x.op, x.sort, a...)
}

// ---- printing ----

func litString(t *Term) string {
	switch t.kind {
	case kIntLit:
		if t.val.Sign() < 0 {
			return "(- " + new(big.Int).Neg(t.val).String() + ")"
		}
		return t.val.String()
	case kBVLit:
		w := t.sort.BVWidth()
		if w%4 == 0 {
			return fmt.Sprintf("#x%0*s", w/4, t.val.Text(16))
		}
		return fmt.Sprintf("#b%0*s", w, t.val.Text(2))
	case kBoolLit:
		return t.op
	}
	panic("not a literal")
}

func symName(s string) string {
	for _, r := range s {
		if !(r >= 'a' && r <= 'z' || r >= 'A' && r <= 'Z' || r >= '0' && r <= '9' || strings.ContainsRune("_.$!?-+*/<>=~^%&@", r)) {
			return "|" + s + "|"
		}
	}
	return s
}

// Show prints a term without sharing (for diagnostics; truncated).
func (c *Ctx) Show(t *Term) string {
	var sb strings.Builder
	var rec func(x *Term, depth int)
	rec = func(x *Term, depth int) {
		if sb.Len() > 4000 {
			return
		}
		switch x.kind {
		case kIntLit, kBVLit, kBoolLit:
			sb.WriteString(litString(x))
		case kConst, kBound:
			sb.WriteString(symName(x.op))
		case kForall, kExists:
			sb.WriteString("(" + x.op + " (")
			for _, v := range x.bvars {
				fmt.Fprintf(&sb, "(%s %s)", symName(v.op), v.sort)
			}
			sb.WriteString(") ")
			rec(x.args[0], depth+1)
			sb.WriteString(")")
		default:
			if len(x.args) == 0 {
				sb.WriteString(symName(x.op))
				return
			}
			if depth > 12 {
				sb.WriteString("...")
				return
			}
			sb.WriteString("(" + opName(x.op))
			for _, a := range x.args {
				sb.WriteByte(' ')
				rec(a, depth+1)
			}
			sb.WriteByte(')')
		}
	}
	rec(t, 0)
	return sb.String()
}

func opName(op string) string {
	if strings.HasPrefix(op, "(") {
		return op
	}
	switch op {
	case "not", "and", "or", "=>", "ite", "=", "+", "-", "*", "div", "mod", "<=", "<", "select", "store":
		return op
	}
	if strings.HasPrefix(op, "bv") {
		return op
	}
	return symName(op)
}

// Script builds a complete SMT-LIB script for: assumptions /\ not goal.
type Script struct {
	Text     string
	NumTerms int
}

type scriptBuilder struct {
	c        *Ctx
	names    map[int]string
	defs     []string
	refs     map[int]int
	usedFns  map[string]bool
	usedCons map[string]Sort
	nterms   int
	qnames   map[int]string // let-bound names of shared sub-terms inside the quantifier being printed
}

func (c *Ctx) BuildScript(assumptions []*Term, goal *Term, getValues []*Term, opts ScriptOpts) Script {
	sb := &scriptBuilder{c: c, names: map[int]string{}, refs: map[int]int{}, usedFns: map[string]bool{}, usedCons: map[string]Sort{}}
	roots := append([]*Term{}, assumptions...)
	negGoal := c.Not(goal)
	roots = append(roots, negGoal)
	roots = append(roots, getValues...)

	// collect function symbols transitively (including bodies of defined functions and axioms)
	var fnOrder []string
	var visitFn func(name string)
	seenT := map[int]bool{}
	var collect func(t *Term)
	collect = func(t *Term) {
		if seenT[t.id] {
			return
		}
		seenT[t.id] = true
		switch t.kind {
		case kConst:
			sb.usedCons[t.op] = t.sort
		case kApp:
			if _, ok := c.funcs[t.op]; ok {
				visitFn(t.op)
			}
		}
		for _, a := range t.args {
			collect(a)
		}
		for _, p := range t.pats {
			for _, a := range p {
				collect(a)
			}
		}
	}
	var axiomRoots []*Term
	visitFn = func(name string) {
		if sb.usedFns[name] {
			return
		}
		sb.usedFns[name] = true
		d := c.funcs[name]
		if d.Body != nil && !opts.isOpaque(name) {
			// a recursive function's own name is already marked, so the recursion terminates
			collect(d.Body)
		}
		fnOrder = append(fnOrder, name)
	}
	for _, r := range roots {
		collect(r)
	}
	// axioms whose trigger functions all occur in the obligation proper
	inRoots := map[string]bool{}
	for n := range sb.usedFns {
		inRoots[n] = true
	}
	var trigKeys []string
	for k := range c.axioms {
		trigKeys = append(trigKeys, k)
	}
	sort.Strings(trigKeys)
	for _, k := range trigKeys {
		ok := true
		for _, f := range strings.Split(k, "+") {
			if !inRoots[f] {
				ok = false
			}
		}
		if !ok {
			continue
		}
		for _, ax := range c.axioms[k] {
			axiomRoots = append(axiomRoots, ax)
			collect(ax)
		}
	}

	var out strings.Builder
	out.WriteString("(set-option :produce-models true)\n(set-logic ALL)\n")
	if opts.Header != "" {
		out.WriteString(opts.Header)
	}
	// sorts
	var sorts []string
	for s := range c.sorts {
		sorts = append(sorts, s)
	}
	sort.Strings(sorts)
	for _, s := range sorts {
		fmt.Fprintf(&out, "(declare-sort %s 0)\n", s)
	}
	// constants
	var cn []string
	for n := range sb.usedCons {
		cn = append(cn, n)
	}
	sort.Strings(cn)
	for _, n := range cn {
		fmt.Fprintf(&out, "(declare-fun %s () %s)\n", symName(n), sb.usedCons[n])
	}
	// functions: uninterpreted first, then defined in dependency order (fnOrder is post-order)
	for _, n := range fnOrder {
		d := c.funcs[n]
		if d.Body == nil || opts.isOpaque(n) {
			fmt.Fprintf(&out, "(declare-fun %s (%s) %s)\n", symName(n), sortList(d.Params), d.Ret)
		}
	}
	for _, n := range fnOrder {
		d := c.funcs[n]
		if d.Body == nil || opts.isOpaque(n) {
			continue
		}
		var ps []string
		for i, p := range d.ParamNames {
			ps = append(ps, fmt.Sprintf("(%s %s)", symName(p), d.Params[i]))
		}
		kw := "define-fun"
		if d.Rec {
			kw = "define-fun-rec"
		}
		fmt.Fprintf(&out, "(%s %s (%s) %s %s)\n", kw, symName(n), strings.Join(ps, " "), d.Ret, sb.letPrint(d.Body))
	}
	// count references for sharing
	var count func(t *Term)
	count = func(t *Term) {
		sb.refs[t.id]++
		if sb.refs[t.id] > 1 {
			return
		}
		for _, a := range t.args {
			count(a)
		}
	}
	all := append(append([]*Term{}, roots...), axiomRoots...)
	for _, r := range all {
		count(r)
	}
	for _, ax := range axiomRoots {
		fmt.Fprintf(&out, "(assert %s)\n", sb.emit(ax, &out))
	}
	for _, a := range assumptions {
		fmt.Fprintf(&out, "(assert %s)\n", sb.emit(a, &out))
	}
	fmt.Fprintf(&out, "(assert %s)\n", sb.emit(negGoal, &out))
	out.WriteString("(check-sat)\n")
	if len(getValues) > 0 {
		var vs []string
		for _, v := range getValues {
			vs = append(vs, sb.emit(v, &out))
		}
		// note: definitions emitted by sb.emit above land before check-sat only if they were
		// already named; to be safe get-values terms are inlined
		vs = vs[:0]
		for _, v := range getValues {
			vs = append(vs, sb.inline(v))
		}
		fmt.Fprintf(&out, "(get-value (%s))\n", strings.Join(vs, " "))
	}
	return Script{Text: out.String(), NumTerms: sb.nterms}
}

type ScriptOpts struct {
	Opaque map[string]bool // defined functions to be treated as uninterpreted
	Header string
}

// isOpaque: Opaque is keyed by the Go name of the spec function; SMT names are spec_<pkg>_<name>.
func (o ScriptOpts) isOpaque(smtName string) bool {
	if o.Opaque[smtName] {
		return true
	}
	for k := range o.Opaque {
		if strings.HasPrefix(smtName, "spec_") && strings.HasSuffix(smtName, "_"+k) {
			return true
		}
	}
	return false
}

func sortList(ss []Sort) string {
	var out []string
	for _, s := range ss {
		out = append(out, string(s))
	}
	return strings.Join(out, " ")
}

// inline prints without sharing.
func (sb *scriptBuilder) inline(t *Term) string {
	var b strings.Builder
	sb.print(t, &b, nil, false)
	return b.String()
}

// emit prints t, introducing named definitions (define-fun) for shared closed sub-terms.
func (sb *scriptBuilder) emit(t *Term, out *strings.Builder) string {
	var b strings.Builder
	sb.print(t, &b, out, true)
	return b.String()
}

func (sb *scriptBuilder) print(t *Term, b *strings.Builder, out *strings.Builder, share bool) {
	sb.nterms++
	if t.bound && sb.qnames != nil {
		if n, ok := sb.qnames[t.id]; ok {
			b.WriteString(n)
			return
		}
	}
	if share && !t.bound && len(t.args) > 0 && t.size > 3 && sb.refs[t.id] > 1 {
		if n, ok := sb.names[t.id]; ok {
			b.WriteString(n)
			return
		}
		var body strings.Builder
		sb.printNode(t, &body, out, share)
		n := fmt.Sprintf("t!%d", t.id)
		fmt.Fprintf(out, "(define-fun %s () %s %s)\n", n, t.sort, body.String())
		sb.names[t.id] = n
		b.WriteString(n)
		return
	}
	sb.printNode(t, b, out, share)
}

func (sb *scriptBuilder) printNode(t *Term, b *strings.Builder, out *strings.Builder, share bool) {
	switch t.kind {
	case kIntLit, kBVLit, kBoolLit:
		b.WriteString(litString(t))
	case kConst, kBound:
		b.WriteString(symName(t.op))
	case kForall, kExists:
		b.WriteString("(" + t.op + " (")
		for _, v := range t.bvars {
			fmt.Fprintf(b, "(%s %s)", symName(v.op), v.sort)
		}
		b.WriteString(") ")
		if len(t.pats) > 0 {
			b.WriteString("(! ")
		}
		sb.printQuantBody(t.args[0], b, out, share)
		if len(t.pats) > 0 {
			for _, p := range t.pats {
				b.WriteString(" :pattern (")
				for i, a := range p {
					if i > 0 {
						b.WriteByte(' ')
					}
					sb.print(a, b, out, share)
				}
				b.WriteString(")")
			}
			b.WriteString(")")
		}
		b.WriteString(")")
	default:
		if len(t.args) == 0 {
			b.WriteString(symName(t.op))
			return
		}
		b.WriteString("(" + opName(t.op))
		for _, a := range t.args {
			b.WriteByte(' ')
			sb.print(a, b, out, share)
		}
		b.WriteByte(')')
	}
}

// printQuantBody prints the body of a quantifier. Sub-terms that mention a bound variable cannot be
// hoisted into top-level definitions; those shared inside the body are bound by nested `let`s so
// that the text stays linear in the size of the DAG. Nested quantifiers are leaves here (they bind
// their own shared sub-terms when printed).
func (sb *scriptBuilder) printQuantBody(body *Term, b *strings.Builder, out *strings.Builder, share bool) {
	refs := map[int]int{}
	var order []*Term
	var walk func(x *Term)
	walk = func(x *Term) {
		if !x.bound {
			return
		}
		refs[x.id]++
		if refs[x.id] > 1 {
			return
		}
		if x.kind != kForall && x.kind != kExists {
			for _, a := range x.args {
				walk(a)
			}
		}
		order = append(order, x) // post-order: arguments first
	}
	walk(body)
	saved := sb.qnames
	sb.qnames = map[int]string{}
	nlets := 0
	for _, x := range order {
		if refs[x.id] > 1 && len(x.args) > 0 && x.kind != kForall && x.kind != kExists && x.size > 3 && x != body {
			var def strings.Builder
			sb.printNode(x, &def, out, share)
			n := fmt.Sprintf("q!%d", x.id)
			fmt.Fprintf(b, "(let ((%s %s)) ", n, def.String())
			sb.qnames[x.id] = n
			nlets++
		}
	}
	sb.print(body, b, out, share)
	for i := 0; i < nlets; i++ {
		b.WriteByte(')')
	}
	sb.qnames = saved
}

// letPrint prints a (function body) term with nested let bindings for shared sub-terms, so that
// the text stays linear in the size of the DAG. Sub-terms that mention a quantified variable are
// never hoisted.
func (sb *scriptBuilder) letPrint(t *Term) string {
	// quantifier-bound variables occurring in t
	qvars := map[int]bool{}
	seen := map[int]bool{}
	var findQ func(x *Term)
	findQ = func(x *Term) {
		if seen[x.id] {
			return
		}
		seen[x.id] = true
		for _, v := range x.bvars {
			qvars[v.id] = true
		}
		for _, a := range x.args {
			findQ(a)
		}
	}
	findQ(t)
	dep := map[int]bool{} // mentions a quantified variable
	var depOf func(x *Term) bool
	depMemo := map[int]bool{}
	depOf = func(x *Term) bool {
		if v, ok := depMemo[x.id]; ok {
			return v
		}
		r := qvars[x.id]
		for _, a := range x.args {
			if depOf(a) {
				r = true
			}
		}
		depMemo[x.id] = r
		dep[x.id] = r
		return r
	}
	depOf(t)
	refs := map[int]int{}
	var count func(x *Term)
	count = func(x *Term) {
		refs[x.id]++
		if refs[x.id] > 1 {
			return
		}
		for _, a := range x.args {
			count(a)
		}
	}
	count(t)
	names := map[int]string{}
	var order []*Term
	var visit func(x *Term)
	vis := map[int]bool{}
	visit = func(x *Term) {
		if vis[x.id] {
			return
		}
		vis[x.id] = true
		for _, a := range x.args {
			visit(a)
		}
		if x != t && refs[x.id] > 1 && len(x.args) > 0 && x.size > 3 && !dep[x.id] {
			names[x.id] = fmt.Sprintf("l!%d", x.id)
			order = append(order, x)
		}
	}
	visit(t)
	var pr func(x *Term, b *strings.Builder, top bool)
	pr = func(x *Term, b *strings.Builder, top bool) {
		if n, ok := names[x.id]; ok && !top {
			b.WriteString(n)
			return
		}
		switch x.kind {
		case kIntLit, kBVLit, kBoolLit:
			b.WriteString(litString(x))
		case kConst, kBound:
			b.WriteString(symName(x.op))
		case kForall, kExists:
			b.WriteString("(" + x.op + " (")
			for _, v := range x.bvars {
				fmt.Fprintf(b, "(%s %s)", symName(v.op), v.sort)
			}
			b.WriteString(") ")
			pr(x.args[0], b, false)
			b.WriteString(")")
		default:
			if len(x.args) == 0 {
				b.WriteString(symName(x.op))
				return
			}
			b.WriteString("(" + opName(x.op))
			for _, a := range x.args {
				b.WriteByte(' ')
				pr(a, b, false)
			}
			b.WriteByte(')')
		}
	}
	var out strings.Builder
	for _, x := range order {
		out.WriteString("(let ((" + names[x.id] + " ")
		pr(x, &out, true)
		out.WriteString(")) ")
	}
	pr(t, &out, true)
	for range order {
		out.WriteByte(')')
	}
	return out.String()
}
