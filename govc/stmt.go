package main

// Statement execution.

import (
	"fmt"
	"strings"
	"go/ast"
	"go/token"
	"go/types"
	"math/big"
)

func (x *Exec) dead(st *State) bool { return st == nil || st.reach.IsFalse() }

func (x *Exec) block(st *State, list []ast.Stmt) *State {
	for _, s := range list {
		if x.dead(st) {
			return nil
		}
		st = x.stmt(st, s)
	}
	return st
}

func (x *Exec) declare(st *State, obj types.Object, v Val) {
	t := obj.Type()
	if isObjType(t) {
		// every struct/array variable is an object of its own
		r := x.allocRef(st, obj.Name())
		if v.T != nil {
			x.copyObject(st, r, v.T, t)
		} else {
			x.zeroObject(st, r, t)
		}
		st.vars[obj] = Val{Typ: t, T: r}
		return
	}
	if x.boxed[obj] {
		r := x.allocRef(st, "box_"+obj.Name())
		st.vars[obj] = Val{Typ: t, T: r}
		x.store(st, LV{kind: lvCell, ref: r, typ: t}, v)
		return
	}
	v.Typ = t
	st.vars[obj] = v
}

func (x *Exec) stmt(st *State, s ast.Stmt) *State {
	x.curPos = s.Pos()
	switch s := s.(type) {
	case *ast.BlockStmt:
		return x.block(st, s.List)
	case *ast.EmptyStmt:
		return st
	case *ast.ExprStmt:
		if call, ok := s.X.(*ast.CallExpr); ok {
			x.call(st, call)
			if st.reach.IsFalse() {
				return nil
			}
			return st
		}
		x.expr(st, s.X)
		return st
	case *ast.DeclStmt:
		gd := s.Decl.(*ast.GenDecl)
		if gd.Tok != token.VAR {
			return st
		}
		for _, sp := range gd.Specs {
			vs := sp.(*ast.ValueSpec)
			if len(vs.Values) == 1 && len(vs.Names) > 1 {
				rs := x.multi(st, vs.Values[0], len(vs.Names))
				for i, n := range vs.Names {
					if n.Name != "_" {
						x.declare(st, x.info.Defs[n], rs[i])
					}
				}
				continue
			}
			for i, n := range vs.Names {
				if n.Name == "_" {
					continue
				}
				obj := x.info.Defs[n]
				if i < len(vs.Values) {
					x.declare(st, obj, x.exprConv(st, vs.Values[i], obj.Type()))
				} else if isObjType(obj.Type()) {
					x.declare(st, obj, Val{})
				} else {
					x.declare(st, obj, x.zeroValNoAlloc(obj.Type()))
				}
			}
		}
		return st
	case *ast.AssignStmt:
		return x.assign(st, s)
	case *ast.IncDecStmt:
		lv := x.lvalue(st, s.X)
		v := x.load(st, lv)
		one := x.intLit(v.Typ, big.NewInt(1))
		op := token.ADD
		if s.Tok == token.DEC {
			op = token.SUB
		}
		x.store(st, lv, Val{Typ: v.Typ, T: x.arith(st, op, v.T, one, v.Typ, exprString(s.X))})
		return st
	case *ast.IfStmt:
		return x.ifStmt(st, s)
	case *ast.ForStmt:
		return x.forStmt(st, s, "")
	case *ast.RangeStmt:
		return x.rangeStmt(st, s, "")
	case *ast.SwitchStmt:
		return x.switchStmt(st, s)
	case *ast.ReturnStmt:
		x.returnStmt(st, s)
		return nil
	case *ast.BranchStmt:
		if s.Label != nil {
			// labelled break/continue: find the loop with that label
			for i := len(x.loops) - 1; i >= 0; i-- {
				if x.loops[i].label == s.Label.Name {
					if s.Tok == token.BREAK {
						x.loops[i].breaks = append(x.loops[i].breaks, st)
					} else {
						x.loops[i].continues = append(x.loops[i].continues, st)
					}
					return nil
				}
			}
			x.fail("labelled %s to unknown label %s", s.Tok, s.Label.Name)
		}
		if len(x.loops) == 0 {
			x.fail("%s outside loop/switch", s.Tok)
		}
		// innermost breakable construct
		switch s.Tok {
		case token.BREAK:
			l := x.loops[len(x.loops)-1]
			l.breaks = append(l.breaks, st)
		case token.CONTINUE:
			for i := len(x.loops) - 1; i >= 0; i-- {
				if !x.loops[i].isSwitch {
					x.loops[i].continues = append(x.loops[i].continues, st)
					return nil
				}
			}
			x.fail("continue outside loop")
		default:
			x.fail("unsupported branch %s", s.Tok)
		}
		return nil
	case *ast.DeferStmt:
		d := deferred{call: s.Call, info: x.info}
		if _, isLit := ast.Unparen(s.Call.Fun).(*ast.FuncLit); !isLit {
			d.frozen = map[ast.Expr]Val{}
			for _, a := range s.Call.Args {
				if t := x.typeOf(a); !isObjType(t) {
					d.frozen[a] = x.expr(st, a)
				}
			}
			if sel, ok := ast.Unparen(s.Call.Fun).(*ast.SelectorExpr); ok {
				if _, isPkg := x.info.Uses[identOf(sel.X)].(*types.PkgName); !isPkg {
					switch x.typeOf(sel.X).Underlying().(type) {
					case *types.Pointer, *types.Interface:
						d.frozen[sel.X] = x.expr(st, sel.X)
					}
				}
			}
		}
		st.defers = append(st.defers[:len(st.defers):len(st.defers)], d)
		return st
	case *ast.GoStmt:
		// arguments are evaluated now; the goroutine body is not executed (ghost spawn event)
		for _, a := range s.Call.Args {
			x.expr(st, a)
		}
		x.abstract["go statement: goroutine body not executed (ghost spawn only)"] = true
		x.ghostSpawn(st, s)
		return st
	case *ast.LabeledStmt:
		switch in := s.Stmt.(type) {
		case *ast.ForStmt:
			return x.forStmt(st, in, s.Label.Name)
		case *ast.RangeStmt:
			return x.rangeStmt(st, in, s.Label.Name)
		}
		return x.stmt(st, s.Stmt)
	case *ast.SendStmt:
		x.expr(st, s.Value)
		x.abstract["channel send: no effect"] = true
		return st
	case *ast.SelectStmt, *ast.TypeSwitchStmt:
		x.fail("unsupported statement %T", s)
	}
	x.fail("unsupported statement %T", s)
	return nil
}

func (x *Exec) ghostSpawn(st *State, s *ast.GoStmt) {
	n := x.heapGet(st, "ghost.spawned", SInt)
	x.heapSet(st, "ghost.spawned", x.c.Add(n, x.c.Int(1)))
}

// multi evaluates an expression producing n values (call, map index, type assertion).
func (x *Exec) multi(st *State, e ast.Expr, n int) []Val {
	switch e := ast.Unparen(e).(type) {
	case *ast.CallExpr:
		rs := x.call(st, e)
		if len(rs) != n {
			x.fail("call %s yields %d values, want %d", exprString(e), len(rs), n)
		}
		return rs
	case *ast.IndexExpr:
		bt := x.typeOf(e.X)
		if u, ok := bt.Underlying().(*types.Map); ok && n == 2 {
			m := x.expr(st, e.X)
			k := x.expr(st, e.Index)
			v, ok := x.mapRead(st, m.T, k, typeKey(bt), u.Elem())
			if isObjType(u.Elem()) && !x.specMode && x.noOblig == 0 {
				// absent key yields the zero object
				z := x.zeroVal(st, u.Elem())
				v = Val{Typ: u.Elem(), T: x.c.Ite(ok, v.T, z.T)}
			}
			return []Val{v, {Typ: types.Typ[types.Bool], T: ok}}
		}
	case *ast.TypeAssertExpr:
		if n == 2 {
			x.abstract["type assertion "+exprString(e)] = true
			x.expr(st, e.X)
			at := x.typeOf(e)
			if tup, ok := at.(*types.Tuple); ok {
				at = tup.At(0).Type()
			}
			return []Val{x.freshVal(st, "typeassert", at), {Typ: types.Typ[types.Bool], T: x.c.Fresh("assert_ok", SBool)}}
		}
	case *ast.UnaryExpr:
		if e.Op == token.ARROW && n == 2 {
			x.abstract["channel receive"] = true
			return []Val{x.freshVal(st, "recv", x.typeOf(e)), {Typ: types.Typ[types.Bool], T: x.c.Fresh("recv_ok", SBool)}}
		}
	}
	x.fail("unsupported multi-value expression %s", exprString(e))
	return nil
}

func (x *Exec) assign(st *State, s *ast.AssignStmt) *State {
	// op-assign
	if s.Tok != token.ASSIGN && s.Tok != token.DEFINE {
		lv := x.lvalue(st, s.Lhs[0])
		a := x.load(st, lv)
		b := x.expr(st, s.Rhs[0])
		var op token.Token
		switch s.Tok {
		case token.ADD_ASSIGN:
			op = token.ADD
		case token.SUB_ASSIGN:
			op = token.SUB
		case token.MUL_ASSIGN:
			op = token.MUL
		case token.QUO_ASSIGN:
			op = token.QUO
		case token.REM_ASSIGN:
			op = token.REM
		case token.AND_ASSIGN:
			op = token.AND
		case token.OR_ASSIGN:
			op = token.OR
		case token.XOR_ASSIGN:
			op = token.XOR
		case token.AND_NOT_ASSIGN:
			op = token.AND_NOT
		case token.SHL_ASSIGN:
			x.store(st, lv, Val{Typ: a.Typ, T: x.shift(st, token.SHL, a.T, a.Typ, b.T, b.Typ, exprString(s.Lhs[0]))})
			return st
		case token.SHR_ASSIGN:
			x.store(st, lv, Val{Typ: a.Typ, T: x.shift(st, token.SHR, a.T, a.Typ, b.T, b.Typ, exprString(s.Lhs[0]))})
			return st
		default:
			x.fail("unsupported assignment operator %s", s.Tok)
		}
		if isString(a.Typ) {
			x.store(st, lv, Val{Typ: a.Typ, T: x.c.App("str_cat", a.T, b.T)})
			return st
		}
		if isFloat(a.Typ) {
			x.store(st, lv, x.freshVal(st, "float", a.Typ))
			return st
		}
		x.store(st, lv, Val{Typ: a.Typ, T: x.arith(st, op, a.T, b.T, a.Typ, exprString(s.Lhs[0])+s.Tok.String())})
		return st
	}
	var vals []Val
	if len(s.Rhs) == 1 && len(s.Lhs) > 1 {
		vals = x.multi(st, s.Rhs[0], len(s.Lhs))
	} else {
		for i, r := range s.Rhs {
			var tt types.Type
			if id, ok := s.Lhs[i].(*ast.Ident); ok && id.Name == "_" {
				tt = nil
			} else if s.Tok == token.DEFINE {
				if id, ok := s.Lhs[i].(*ast.Ident); ok {
					if o := x.info.Defs[id]; o != nil {
						tt = o.Type()
					} else if o := x.info.Uses[id]; o != nil {
						tt = o.Type()
					}
				}
			} else {
				tt = x.typeOf(s.Lhs[i])
			}
			var v Val
			if tt != nil {
				v = x.exprConv(st, r, tt)
			} else {
				v = x.expr(st, r)
			}
			// struct values must be snapshotted when several assignments happen at once
			if len(s.Rhs) > 1 && v.T != nil && isObjType(v.Typ) {
				r := x.allocRef(st, "tmp")
				x.copyObject(st, r, v.T, v.Typ)
				v.T = r
			}
			vals = append(vals, v)
		}
	}
	for i, l := range s.Lhs {
		if id, ok := l.(*ast.Ident); ok {
			if id.Name == "_" {
				continue
			}
			if s.Tok == token.DEFINE {
				if obj := x.info.Defs[id]; obj != nil {
					x.declare(st, obj, vals[i])
					continue
				}
			}
		}
		lv := x.lvalue(st, l)
		x.store(st, lv, vals[i])
	}
	return st
}

func (x *Exec) ifStmt(st *State, s *ast.IfStmt) *State {
	if s.Init != nil {
		st = x.stmt(st, s.Init)
		if x.dead(st) {
			return nil
		}
	}
	cond := x.expr(st, s.Cond).T
	thenSt := st.clone()
	thenSt.reach = x.c.And(st.reach, cond)
	elseSt := st
	elseSt.reach = x.c.And(st.reach, x.c.Not(cond))
	var a, b *State
	if !thenSt.reach.IsFalse() {
		a = x.block(thenSt, s.Body.List)
	}
	if !elseSt.reach.IsFalse() {
		if s.Else != nil {
			b = x.stmt(elseSt, s.Else)
		} else {
			b = elseSt
		}
	}
	if x.dead(a) {
		return b
	}
	if x.dead(b) {
		return a
	}
	return x.merge2(cond, a, b)
}

func (x *Exec) switchStmt(st *State, s *ast.SwitchStmt) *State {
	if s.Init != nil {
		st = x.stmt(st, s.Init)
	}
	var tag Val
	hasTag := s.Tag != nil
	var tagT types.Type
	if hasTag {
		tag = x.expr(st, s.Tag)
		tagT = x.typeOf(s.Tag)
	}
	lc := &loopCtx{isSwitch: true}
	x.loops = append(x.loops, lc)
	var outs []*State
	rest := st
	var defaultClause *ast.CaseClause
	for _, cc := range s.Body.List {
		cl := cc.(*ast.CaseClause)
		if cl.List == nil {
			defaultClause = cl
			continue
		}
		if x.dead(rest) {
			break
		}
		var conds []*Term
		for _, ce := range cl.List {
			if hasTag {
				v := x.expr(rest, ce)
				conds = append(conds, x.valEq(rest, tag, v, tagT, x.typeOf(ce)))
			} else {
				conds = append(conds, x.expr(rest, ce).T)
			}
		}
		cond := x.c.Or(conds...)
		body := rest.clone()
		body.reach = x.c.And(rest.reach, cond)
		rest.reach = x.c.And(rest.reach, x.c.Not(cond))
		if !body.reach.IsFalse() {
			for _, bs := range cl.Body {
				if br, ok := bs.(*ast.BranchStmt); ok && br.Tok == token.FALLTHROUGH {
					x.fail("fallthrough not supported")
				}
			}
			outs = append(outs, x.block(body, cl.Body))
		}
	}
	if !x.dead(rest) {
		if defaultClause != nil {
			outs = append(outs, x.block(rest, defaultClause.Body))
		} else {
			outs = append(outs, rest)
		}
	}
	x.loops = x.loops[:len(x.loops)-1]
	outs = append(outs, lc.breaks...)
	return x.mergeN(outs)
}

func (x *Exec) returnStmt(st *State, s *ast.ReturnStmt) {
	var res []Val
	var sig *types.Signature
	var resultVars []*types.Var
	if len(x.retTarget) > 0 {
		f := x.retTarget[len(x.retTarget)-1]
		sig, resultVars = f.sig, f.results
	} else {
		sig, resultVars = x.conSig, x.resultObjs
	}
	n := sig.Results().Len()
	switch {
	case len(s.Results) == 0:
		for i := 0; i < n; i++ {
			rv := resultVars[i]
			if rv == nil {
				x.fail("bare return with unnamed results")
			}
			res = append(res, x.load(st, x.varLV(st, rv)))
		}
	case len(s.Results) == 1 && n > 1:
		res = x.multi(st, s.Results[0], n)
	default:
		for i, r := range s.Results {
			res = append(res, x.exprConv(st, r, sig.Results().At(i).Type()))
		}
	}
	// named results get the returned values (visible to deferred closures)
	for i := 0; i < n; i++ {
		if rv := resultVars[i]; rv != nil && len(s.Results) > 0 {
			x.store(st, x.varLV(st, rv), res[i])
		}
	}
	st.results = res
	if len(x.retTarget) > 0 {
		f := x.retTarget[len(x.retTarget)-1]
		f.returns = append(f.returns, st)
		return
	}
	x.returns = append(x.returns, st)
}

func (x *Exec) varLV(st *State, v *types.Var) LV {
	if isObjType(v.Type()) {
		return LV{kind: lvObj, ref: st.vars[v].T, typ: v.Type()}
	}
	if x.boxed[v] {
		return LV{kind: lvCell, ref: st.vars[v].T, typ: v.Type()}
	}
	return LV{kind: lvVar, obj: v, typ: v.Type()}
}

// ---------- loops ----------

// modSet: local variables and heap components possibly written by a piece of code.
type modSet struct {
	vars      map[types.Object]bool
	comps     map[string]Sort
	all       bool
	imprecise map[string]bool // components written at locations we cannot name at the loop head
	writes    []lvWrite       // candidate precise writes
	tracking  *[]string       // when non-nil: component names added are recorded here
	info      *types.Info
}

type lvWrite struct {
	expr  ast.Expr
	comps []string
	info  *types.Info
	// other kinds of precise writes:
	ghostAt ast.Expr // ghost component(s) in comps written at the reference this expression evaluates to
	clause  *Clause  // a callee's modifies designator that mentions only package-level names
}

// addAt: component comp is written at the object denoted by expr (a lib model's receiver/argument).
func (ms *modSet) addAt(comp string, s Sort, expr ast.Expr, info *types.Info) {
	ms.comps[comp] = s
	ms.writes = append(ms.writes, lvWrite{comps: []string{comp}, ghostAt: expr, info: info})
}

func (ms *modSet) add(name string, s Sort) {
	ms.comps[name] = s
	if ms.tracking != nil {
		*ms.tracking = append(*ms.tracking, name)
	} else {
		ms.imprecise[name] = true
	}
}
func (ms *modSet) merge(o *modSet) {
	for k := range o.vars {
		ms.vars[k] = true
	}
	for k, s := range o.comps {
		ms.comps[k] = s
	}
	for k := range o.imprecise {
		ms.imprecise[k] = true
	}
	// writes of a merged scan (callee bodies, closures) refer to other scopes: imprecise,
	// except designators over package-level names, which mean the same everywhere
	for _, w := range o.writes {
		if w.clause != nil {
			ms.writes = append(ms.writes, w)
			continue
		}
		for _, c := range w.comps {
			ms.imprecise[c] = true
		}
	}
	if o.all {
		ms.all = true
	}
}

func (x *Exec) scanMods(nodes ...ast.Node) *modSet {
	ms := &modSet{vars: map[types.Object]bool{}, comps: map[string]Sort{}, imprecise: map[string]bool{}, info: x.info}
	var markLV0 func(e ast.Expr)
	markLV := func(e ast.Expr) {
		// record which components this lvalue touches; selector and index writes are candidates
		// for a precise frame (only the named location is havocked at the loop head)
		var names []string
		ms.tracking = &names
		markLV0(e)
		ms.tracking = nil
		switch ast.Unparen(e).(type) {
		case *ast.SelectorExpr, *ast.IndexExpr:
			ms.writes = append(ms.writes, lvWrite{expr: ast.Unparen(e), comps: names, info: x.info})
		default:
			for _, n := range names {
				ms.imprecise[n] = true
			}
		}
	}
	markLV0 = func(e ast.Expr) {
		switch e := ast.Unparen(e).(type) {
		case *ast.Ident:
			obj := x.info.Uses[e]
			if obj == nil {
				obj = x.info.Defs[e]
			}
			if v, ok := obj.(*types.Var); ok {
				if isPkgLevel(v) {
					if isObjType(v.Type()) {
						x.markObjComps(ms, v.Type())
					} else {
						x.markTypeComps(ms, globalComp(v), v.Type(), true)
					}
				} else {
					ms.vars[v] = true
					if isObjType(v.Type()) {
						x.markObjComps(ms, v.Type())
					}
					if x.boxed[v] {
						x.markTypeComps(ms, x.cellComp(v.Type()), v.Type(), false)
					}
				}
			}
		case *ast.SelectorExpr:
			if sel, ok := x.info.Selections[e]; ok && sel.Kind() == types.FieldVal {
				t := sel.Recv()
				for n, i := range sel.Index() {
					if p, ok := t.Underlying().(*types.Pointer); ok {
						t = p.Elem()
					}
					s := t.Underlying().(*types.Struct)
					f := s.Field(i)
					if n == len(sel.Index())-1 {
						if isObjType(f.Type()) {
							x.markObjComps(ms, f.Type())
						} else {
							x.markTypeComps(ms, fieldComp(typeKey(t), f.Name()), f.Type(), false)
						}
					}
					t = f.Type()
				}
				return
			}
			if v, ok := x.info.Uses[e.Sel].(*types.Var); ok && isPkgLevel(v) {
				if isObjType(v.Type()) {
					x.markObjComps(ms, v.Type())
				} else {
					x.markTypeComps(ms, globalComp(v), v.Type(), true)
				}
			}
		case *ast.IndexExpr:
			bt := x.typeOf(e.X)
			switch u := bt.Underlying().(type) {
			case *types.Map:
				x.markMapComps(ms, bt, u)
			case *types.Slice:
				x.markElemComps(ms, u.Elem())
			case *types.Array:
				x.markElemComps(ms, u.Elem())
			case *types.Pointer:
				if at, ok := u.Elem().Underlying().(*types.Array); ok {
					x.markElemComps(ms, at.Elem())
				}
			}
		case *ast.StarExpr:
			t := x.typeOf(e)
			if isObjType(t) {
				x.markObjComps(ms, t)
			} else {
				x.markTypeComps(ms, x.cellComp(t), t, false)
			}
		}
	}
	for _, n := range nodes {
		if n == nil {
			continue
		}
		ast.Inspect(n, func(n ast.Node) bool {
			switch s := n.(type) {
			case *ast.AssignStmt:
				for _, l := range s.Lhs {
					markLV(l)
				}
			case *ast.IncDecStmt:
				markLV(s.X)
			case *ast.RangeStmt:
				if s.Key != nil {
					markLV(s.Key)
				}
				if s.Value != nil {
					markLV(s.Value)
				}
			case *ast.DeclStmt:
				ms.add("ghost.brk", SInt)
				if gd, ok := s.Decl.(*ast.GenDecl); ok {
					for _, sp := range gd.Specs {
						if vs, ok := sp.(*ast.ValueSpec); ok {
							for _, nm := range vs.Names {
								if o := x.info.Defs[nm]; o != nil {
									x.markObjCompsIfObj(ms, o.Type())
								}
							}
						}
					}
				}
			case *ast.CompositeLit:
				ms.add("ghost.brk", SInt)
				t := x.typeOf(s)
				x.markObjCompsIfObj(ms, t)
				if m, ok := t.Underlying().(*types.Map); ok {
					x.markMapComps(ms, t, m)
				}
			case *ast.GoStmt:
				ms.add("ghost.spawned", SInt)
			case *ast.CallExpr:
				x.scanCallMods(ms, s)
			case *ast.UnaryExpr:
				if s.Op == token.AND {
					ms.add("ghost.brk", SInt)
				}
			}
			return true
		})
	}
	return ms
}

func (x *Exec) markMapComps(ms *modSet, t types.Type, u *types.Map) {
	ks := x.scalarSort(u.Key())
	var vs Sort = SInt
	if !isObjType(u.Elem()) && !isSliceT(u.Elem()) {
		vs = x.scalarSort(u.Elem())
	}
	ms.add("MD."+typeKey(t), SArr(SInt, SArr(ks, SBool)))
	ms.add("MV."+typeKey(t), SArr(SInt, SArr(ks, vs)))
	ms.add("ghost.brk", SInt)
	if isObjType(u.Elem()) {
		x.markObjComps(ms, u.Elem())
	}
}

func (x *Exec) markObjCompsIfObj(ms *modSet, t types.Type) {
	if isObjType(t) {
		x.markObjComps(ms, t)
	}
	if s, ok := t.Underlying().(*types.Slice); ok {
		x.markElemComps(ms, s.Elem())
	}
}

func (x *Exec) markTypeComps(ms *modSet, base string, t types.Type, global bool) {
	wrap := func(s Sort) Sort {
		if global {
			return s
		}
		return SArr(SInt, s)
	}
	if isSliceT(t) {
		is := x.idxSort()
		ms.add(base+"#arr", wrap(SInt))
		ms.add(base+"#off", wrap(is))
		ms.add(base+"#len", wrap(is))
		ms.add(base+"#cap", wrap(is))
		return
	}
	ms.add(base, wrap(x.scalarSort(t)))
}

func (x *Exec) markObjComps(ms *modSet, t types.Type) {
	switch u := t.Underlying().(type) {
	case *types.Struct:
		sk := typeKey(t)
		for i := 0; i < u.NumFields(); i++ {
			f := u.Field(i)
			if isObjType(f.Type()) {
				x.markObjComps(ms, f.Type())
			} else {
				x.markTypeComps(ms, fieldComp(sk, f.Name()), f.Type(), false)
			}
		}
	case *types.Array:
		x.markElemComps(ms, u.Elem())
	}
}

func (x *Exec) markElemComps(ms *modSet, el types.Type) {
	if isObjType(el) {
		x.markObjComps(ms, el)
		return
	}
	is := x.idxSort()
	if isSliceT(el) {
		base := "M." + typeKey(el)
		ms.add(base+"#arr", SArr(SInt, SArr(is, SInt)))
		ms.add(base+"#off", SArr(SInt, SArr(is, is)))
		ms.add(base+"#len", SArr(SInt, SArr(is, is)))
		ms.add(base+"#cap", SArr(SInt, SArr(is, is)))
		return
	}
	ms.add(memComp(el), x.memSort(el))
}

// havocMods replaces the modified variables and heap components by fresh symbols.
func (x *Exec) havocMods(st *State, ms *modSet, tag string) {
	for obj := range ms.vars {
		v, ok := st.vars[obj]
		if !ok {
			continue
		}
		if isObjType(obj.Type()) || x.boxed[obj] {
			continue // identity stays; contents are heap components
		}
		st.vars[obj] = x.freshVal(st, tag+"_"+obj.Name(), v.Typ)
	}
	if ms.all {
		for name, t := range st.heap {
			if name == "ghost.brk" {
				continue
			}
			st.heap[name] = x.c.Fresh(tag+"_"+name, t.sort)
		}
	}
	precise := x.preciseLocs(st, ms)
	for name, srt := range ms.comps {
		cur := x.heapGet(st, name, srt)
		if name == "ghost.brk" {
			// the allocation frontier only grows
			nb := x.c.Fresh(tag+"_brk", SInt)
			x.assumeGlobal(st, x.c.Ge(nb, cur))
			st.heap[name] = nb
			continue
		}
		if locs, ok := precise[name]; ok {
			for _, l := range locs {
				_, es := cur.sort.ArrayParts()
				cur = x.c.Store(cur, l.ref, x.c.Fresh(tag+"_"+name, es))
			}
			st.heap[name] = cur
			continue
		}
		st.heap[name] = x.c.Fresh(tag+"_"+name, cur.sort)
	}
}

// preciseLocs: for components that are only written through loop-invariant designators, the
// locations (evaluated at the loop head) that must be havocked.
func (x *Exec) preciseLocs(st *State, ms *modSet) map[string][]modLoc {
	out := map[string][]modLoc{}
	bad := map[string]bool{}
	for k := range ms.imprecise {
		bad[k] = true
	}
	type cand struct {
		w    lvWrite
		locs []modLoc
	}
	var cands []cand
	for _, w := range ms.writes {
		ok := false
		var locs []modLoc
		func() {
			defer func() {
				if r := recover(); r != nil {
					if _, isAbort := r.(*Abort); !isAbort {
						panic(r)
					}
					ok = false
				}
			}()
			savedInfo := x.info
			x.info = w.info
			defer func() { x.info = savedInfo }()
			if w.clause != nil {
				// modifies designator of a callee over package-level names only
				x.info, x.curClause = w.clause.Info, w.clause
				defer func() { x.curClause = nil }()
				es := st.clone()
				x.noOblig++
				defer func() { x.noOblig-- }()
				locs = x.modLocations(es, w.clause.Expr)
				ok = locs != nil
				return
			}
			if w.ghostAt != nil {
				if !x.invariantExpr(w.ghostAt, ms) {
					return
				}
				es := st.clone()
				x.noOblig++
				defer func() { x.noOblig-- }()
				v := x.expr(es, w.ghostAt)
				for _, cname := range w.comps {
					locs = append(locs, modLoc{comp: cname, sort: ms.comps[cname], ref: v.T})
				}
				ok = true
				return
			}
			var base ast.Expr
			switch e := w.expr.(type) {
			case *ast.SelectorExpr:
				base = e.X
			case *ast.IndexExpr:
				base = e.X
			}
			if base == nil || !x.invariantExpr(base, ms) {
				return
			}
			es := st.clone()
			x.noOblig++
			defer func() { x.noOblig-- }()
			switch e := w.expr.(type) {
			case *ast.SelectorExpr:
				locs = x.modLocations(es, e)
			case *ast.IndexExpr:
				bt := x.typeOf(e.X)
				switch u := bt.Underlying().(type) {
				case *types.Slice:
					v := x.expr(es, e.X)
					locs = x.elemLocsAny(v.Arr, u.Elem())
				case *types.Array:
					lv := x.lvalue(es, e.X)
					locs = x.elemLocsAny(lv.ref, u.Elem())
				default:
					return
				}
			}
			ok = locs != nil
		}()
		if !ok {
			for _, c := range w.comps {
				bad[c] = true
			}
			continue
		}
		cands = append(cands, cand{w, locs})
	}
	for _, cd := range cands {
		covered := map[string]bool{}
		for _, l := range cd.locs {
			covered[l.comp] = true
			if !bad[l.comp] && !l.whole {
				out[l.comp] = append(out[l.comp], l)
			} else {
				bad[l.comp] = true
			}
		}
		for _, c := range cd.w.comps {
			if !covered[c] {
				bad[c] = true
			}
		}
	}
	for k := range bad {
		delete(out, k)
	}
	return out
}

// elemLocsAny: element locations; object elements are not supported precisely (nil).
func (x *Exec) elemLocsAny(arr *Term, el types.Type) []modLoc {
	if isObjType(el) {
		return nil
	}
	return x.elemLocs(arr, el)
}

// invariantExpr: the value of e (a designator base) cannot change inside the loop.
func (x *Exec) invariantExpr(e ast.Expr, ms *modSet) bool {
	switch e := ast.Unparen(e).(type) {
	case *ast.Ident:
		obj := x.info.Uses[e]
		if obj == nil {
			obj = x.info.Defs[e]
		}
		v, ok := obj.(*types.Var)
		if !ok {
			return false
		}
		if isPkgLevel(v) {
			if isObjType(v.Type()) {
				return true
			}
			for name := range ms.comps {
				if name == globalComp(v) || strings.HasPrefix(name, globalComp(v)+"#") {
					return false
				}
			}
			return true
		}
		if isObjType(v.Type()) {
			return true // identity of an object variable never changes
		}
		return !ms.vars[v] && !x.boxed[v]
	case *ast.SelectorExpr:
		sel, ok := x.info.Selections[e]
		if !ok || sel.Kind() != types.FieldVal {
			if v, ok := x.info.Uses[e.Sel].(*types.Var); ok && isPkgLevel(v) {
				return x.invariantExpr(e.Sel, ms)
			}
			return false
		}
		if !x.invariantExpr(e.X, ms) {
			return false
		}
		// every field read along the path must be unmodified
		t := sel.Recv()
		for _, i := range sel.Index() {
			if p, ok := t.Underlying().(*types.Pointer); ok {
				t = p.Elem()
			}
			st, ok := t.Underlying().(*types.Struct)
			if !ok {
				return false
			}
			f := st.Field(i)
			if !isObjType(f.Type()) {
				base := fieldComp(typeKey(t), f.Name())
				for name := range ms.comps {
					if name == base || strings.HasPrefix(name, base+"#") {
						return false
					}
				}
			}
			t = f.Type()
		}
		return true
	case *ast.SliceExpr:
		return x.invariantExpr(e.X, ms)
	case *ast.UnaryExpr:
		if e.Op == token.AND {
			return x.invariantExpr(e.X, ms)
		}
	}
	return false
}

// checkLoopMods: soundness guard — every component changed by the body must be in the havoc set.
func (x *Exec) checkLoopMods(head map[string]*Term, end *State, ms *modSet, what string) {
	if end == nil || ms.all {
		return
	}
	for name, t := range end.heap {
		if h, ok := head[name]; ok && h == t {
			continue
		}
		if _, ok := head[name]; !ok {
			if strings.HasPrefix(t.op, "H0_") {
				continue
			}
		}
		if _, ok := ms.comps[name]; !ok && name != "ghost.brk" {
			x.fail("%s: loop body modifies heap component %s which the modification scan missed", what, name)
		}
	}
}

func (x *Exec) loopSpec(s ast.Stmt) *LoopSpec {
	if x.con == nil {
		return nil
	}
	ord, ok := x.loopOrd[s]
	if !ok {
		return nil
	}
	return x.con.Loops[ord]
}

func (x *Exec) checkInvariants(st *State, ls *LoopSpec, phase string, idx *Term) {
	if ls == nil {
		return
	}
	// sequential cut: an invariant conjunct may use the conjuncts listed before it (each of them is
	// an obligation of its own), so helper invariants can serve as lemmas for the later ones
	cs := st.clone()
	var cutFacts []*Term
	for _, inv := range ls.Invariants {
		for _, p := range x.clauseParts(cs, inv, idx) {
			name := fmt.Sprintf("%s/%s%s.%s", x.key, inv.Name, p.suffix, phase)
			n0 := len(x.obls)
			x.oblige(cs, name, "invariant", inv.Text, p.t)
			if len(x.obls) > n0 {
				if o := x.obls[len(x.obls)-1]; o.Status == "" {
					o.Cut = append([]*Term{}, cutFacts...)
				}
			}
			cutFacts = append(cutFacts, p.t)
		}
	}
}

func (x *Exec) assumeInvariants(st *State, ls *LoopSpec, idx *Term) {
	if ls == nil {
		return
	}
	for _, inv := range ls.Invariants {
		for _, conj := range x.clauseConjuncts(st, inv, idx) {
			x.assume(st, conj)
		}
	}
}

// clauseConjuncts translates a clause in state st and splits top-level conjunctions.
func (x *Exec) clauseConjuncts(st *State, cl *Clause, idx *Term) []*Term {
	var out []*Term
	for _, p := range x.clauseParts(st, cl, idx) {
		out = append(out, p.t)
	}
	return out
}

type namedConj struct {
	suffix string // "" | ".2" | ".2/c3": source-level conjunct number, then term-level sub-conjunct
	t      *Term
}

// clauseParts splits a clause into obligations with stable names: first along the top-level &&
// of the clause text (numbered as written), then — for the solver's benefit — along the
// conjunction obtained after inlining spec predicates ("/cN").
func (x *Exec) clauseParts(st *State, cl *Clause, idx *Term) []namedConj {
	var asts []ast.Expr
	var split func(e ast.Expr)
	split = func(e ast.Expr) {
		if pe, ok := e.(*ast.ParenExpr); ok && !cl.Olds[pe] {
			split(pe.X)
			return
		}
		if b, ok := e.(*ast.BinaryExpr); ok && b.Op == token.LAND {
			split(b.X)
			split(b.Y)
			return
		}
		asts = append(asts, e)
	}
	split(cl.Expr)
	var out []namedConj
	for a, e := range asts {
		t := x.evalClauseExpr(st, cl, e, idx)
		base := ""
		if a > 0 {
			base = fmt.Sprintf(".%d", a+1)
		}
		if t.kind == kApp && t.op == "and" {
			for k, sub := range t.args {
				sfx := base
				if k > 0 {
					sfx += fmt.Sprintf("/c%d", k+1)
				}
				out = append(out, namedConj{sfx, sub})
			}
			continue
		}
		out = append(out, namedConj{base, t})
	}
	return out
}

func (x *Exec) evalClause(st *State, cl *Clause, idx *Term) *Term {
	return x.evalClauseExpr(st, cl, cl.Expr, idx)
}

func (x *Exec) evalClauseExpr(st *State, cl *Clause, e ast.Expr, idx *Term) *Term {
	savedInfo, savedClause, savedPH := x.info, x.curClause, x.placehold
	x.info, x.curClause = cl.Info, cl
	ph := map[string]Val{}
	for k, v := range savedPH {
		ph[k] = v
	}
	if idx != nil {
		ph["__index"] = Val{Typ: types.Typ[types.Int], T: idx}
	}
	x.placehold = ph
	x.noOblig++
	v := x.expr(st, e)
	x.noOblig--
	x.info, x.curClause, x.placehold = savedInfo, savedClause, savedPH
	return v.T
}

func (x *Exec) forStmt(st *State, s *ast.ForStmt, label string) *State {
	if s.Init != nil {
		st = x.stmt(st, s.Init)
	}
	ls := x.loopSpec(s)
	if x.specMode || (ls != nil && ls.Unroll) {
		return x.unrollFor(st, s, label)
	}
	ms := x.scanMods(s.Body, s.Post)
	x.checkInvariants(st, ls, "init", nil)
	ord := x.loopOrd[s]
	x.havocMods(st, ms, fmt.Sprintf("loop%d", ord))
	head := map[string]*Term{}
	for k, v := range st.heap {
		head[k] = v
	}
	x.assumeInvariants(st, ls, nil)
	var cond *Term
	if s.Cond != nil {
		cond = x.expr(st, s.Cond).T
	} else {
		cond = x.c.True()
	}
	exit := st.clone()
	exit.reach = x.c.And(st.reach, x.c.Not(cond))
	body := st
	body.reach = x.c.And(st.reach, cond)
	lc := &loopCtx{label: label}
	x.loops = append(x.loops, lc)
	var end *State
	if !body.reach.IsFalse() {
		end = x.block(body, s.Body.List)
	}
	x.loops = x.loops[:len(x.loops)-1]
	end = x.mergeN(append([]*State{end}, lc.continues...))
	if !x.dead(end) {
		if s.Post != nil {
			end = x.stmt(end, s.Post)
		}
		x.checkLoopMods(head, end, ms, fmt.Sprintf("loop %d", ord))
		x.checkInvariants(end, ls, "preserve", nil)
	}
	for _, b := range lc.breaks {
		x.checkLoopMods(head, b, ms, fmt.Sprintf("loop %d", ord))
	}
	return x.mergeN(append([]*State{exit}, lc.breaks...))
}

func (x *Exec) unrollFor(st *State, s *ast.ForStmt, label string) *State {
	var exits []*State
	for iter := 0; ; iter++ {
		if iter > 4096 {
			x.fail("unroll: more than 4096 iterations")
		}
		cond := x.c.True()
		if s.Cond != nil {
			cond = x.expr(st, s.Cond).T
		}
		if cond.IsFalse() {
			break
		}
		if !cond.IsTrue() {
			x.fail("unroll: loop condition is not constant at iteration %d (%s)", iter, x.c.Show(cond))
		}
		lc := &loopCtx{label: label}
		x.loops = append(x.loops, lc)
		end := x.block(st, s.Body.List)
		x.loops = x.loops[:len(x.loops)-1]
		exits = append(exits, lc.breaks...)
		end = x.mergeN(append([]*State{end}, lc.continues...))
		if x.dead(end) {
			st = nil
			break
		}
		st = end
		if s.Post != nil {
			st = x.stmt(st, s.Post)
		}
	}
	return x.mergeN(append([]*State{st}, exits...))
}

func (x *Exec) rangeStmt(st *State, s *ast.RangeStmt, label string) *State {
	c := x.c
	xt := x.typeOf(s.X)
	ls := x.loopSpec(s)
	ord := x.loopOrd[s]
	tag := fmt.Sprintf("loop%d", ord)
	zero := x.idxLit(0)
	one := x.idxLit(1)

	var n *Term                 // number of iterations
	var elemAt func(st *State, i *Term) Val // value at position i
	var keyVal func(i *Term) Val
	switch u := xt.Underlying().(type) {
	case *types.Slice:
		sv := x.expr(st, s.X)
		n = sv.Len
		elemAt = func(st *State, i *Term) Val { return x.loadElem(st, sv.Arr, x.idxAdd(sv.Off, i), u.Elem()) }
	case *types.Array:
		lv := x.lvalue(st, s.X)
		n = x.idxLit(u.Len())
		elemAt = func(st *State, i *Term) Val { return x.loadElem(st, lv.ref, i, u.Elem()) }
	case *types.Basic:
		if isString(xt) {
			// iteration over runes: abstracted (positions and runes are unconstrained)
			x.abstract["range over string: runes and positions unconstrained"] = true
			return x.rangeAbstract(st, s, label, ls, tag)
		}
		if _, _, ok := intInfo(xt); ok {
			n = x.toIdx(st, x.expr(st, s.X))
		}
	case *types.Map:
		return x.rangeAbstract(st, s, label, ls, tag)
	}
	if n == nil {
		x.fail("range over %s not supported", xt)
	}
	keyVal = func(i *Term) Val { return Val{Typ: types.Typ[types.Int], T: i} }

	bindIter := func(st *State, i *Term) {
		if s.Key != nil {
			x.bindRangeVar(st, s, s.Key, keyVal(i))
		}
		if s.Value != nil && elemAt != nil {
			x.bindRangeVar(st, s, s.Value, elemAt(st, i))
		}
	}

	if x.specMode || (ls != nil && ls.Unroll) {
		if n.kind != kIntLit && n.kind != kBVLit {
			x.fail("unroll of range loop with non-constant length")
		}
		cnt := n.SignedVal().Int64()
		var exits []*State
		for i := int64(0); i < cnt && !x.dead(st); i++ {
			bindIter(st, x.idxLit(i))
			lc := &loopCtx{label: label}
			x.loops = append(x.loops, lc)
			end := x.block(st, s.Body.List)
			x.loops = x.loops[:len(x.loops)-1]
			exits = append(exits, lc.breaks...)
			st = x.mergeN(append([]*State{end}, lc.continues...))
		}
		return x.mergeN(append([]*State{st}, exits...))
	}

	ms := x.scanMods(s.Body)
	if id, ok := s.Key.(*ast.Ident); ok && s.Tok == token.DEFINE {
		delete(ms.vars, x.info.Defs[id])
	}
	x.checkInvariants(st, ls, "init", zero)
	x.havocMods(st, ms, tag)
	head := map[string]*Term{}
	for k, v := range st.heap {
		head[k] = v
	}
	idx := c.Fresh(tag+"_index", x.idxSort())
	x.assumeGlobal(st, c.And(x.idxLe(zero, idx), x.idxLe(idx, n)))
	x.assumeInvariants(st, ls, idx)
	exit := st.clone()
	exit.reach = c.And(st.reach, c.Eq(idx, n))
	body := st
	body.reach = c.And(st.reach, x.idxLt(idx, n))
	bindIter(body, idx)
	lc := &loopCtx{label: label}
	x.loops = append(x.loops, lc)
	var end *State
	if !body.reach.IsFalse() {
		end = x.block(body, s.Body.List)
	}
	x.loops = x.loops[:len(x.loops)-1]
	end = x.mergeN(append([]*State{end}, lc.continues...))
	if !x.dead(end) {
		x.checkLoopMods(head, end, ms, tag)
		x.checkInvariants(end, ls, "preserve", x.idxAdd(idx, one))
	}
	for _, b := range lc.breaks {
		x.checkLoopMods(head, b, ms, tag)
	}
	// breaks leave with their own state; invariants at $index are not re-established there
	return x.mergeN(append([]*State{exit}, lc.breaks...))
}

func (x *Exec) bindRangeVar(st *State, s *ast.RangeStmt, e ast.Expr, v Val) {
	if id, ok := e.(*ast.Ident); ok {
		if id.Name == "_" {
			return
		}
		if s.Tok == token.DEFINE {
			x.declare(st, x.info.Defs[id], v)
			return
		}
	}
	x.store(st, x.lvalue(st, e), v)
}

// rangeAbstract: loops over maps / strings: arbitrary number of iterations with unconstrained
// key/value; invariants (without $index) are checked as for a while(*) loop.
func (x *Exec) rangeAbstract(st *State, s *ast.RangeStmt, label string, ls *LoopSpec, tag string) *State {
	c := x.c
	xt := x.typeOf(s.X)
	var mapV Val
	if _, ok := xt.Underlying().(*types.Map); ok {
		mapV = x.expr(st, s.X)
	} else {
		x.expr(st, s.X)
	}
	ms := x.scanMods(s.Body)
	x.checkInvariants(st, ls, "init", nil)
	x.havocMods(st, ms, tag)
	x.assumeInvariants(st, ls, nil)
	more := c.Fresh(tag+"_more", SBool)
	exit := st.clone()
	exit.reach = c.And(st.reach, c.Not(more))
	body := st
	body.reach = c.And(st.reach, more)
	if s.Key != nil {
		kt := x.typeOf(s.Key)
		kv := x.freshVal(body, tag+"_key", kt)
		if u, ok := xt.Underlying().(*types.Map); ok {
			// the key is in the map's domain
			dom := c.Select(x.heapGet(body, "MD."+typeKey(xt), SArr(SInt, SArr(kv.T.sort, SBool))), mapV.T)
			x.assume(body, c.Select(dom, kv.T))
			if s.Value != nil {
				vv, _ := x.mapRead(body, mapV.T, kv, typeKey(xt), u.Elem())
				x.bindRangeVar(body, s, s.Value, vv)
			}
		} else if s.Value != nil {
			x.bindRangeVar(body, s, s.Value, x.freshVal(body, tag+"_val", x.typeOf(s.Value)))
		}
		x.bindRangeVar(body, s, s.Key, kv)
	} else if s.Value != nil {
		x.bindRangeVar(body, s, s.Value, x.freshVal(body, tag+"_val", x.typeOf(s.Value)))
	}
	lc := &loopCtx{label: label}
	x.loops = append(x.loops, lc)
	end := x.block(body, s.Body.List)
	x.loops = x.loops[:len(x.loops)-1]
	end = x.mergeN(append([]*State{end}, lc.continues...))
	if !x.dead(end) {
		x.checkInvariants(end, ls, "preserve", nil)
	}
	return x.mergeN(append([]*State{exit}, lc.breaks...))
}

func identOf(e ast.Expr) *ast.Ident {
	id, _ := ast.Unparen(e).(*ast.Ident)
	return id
}
