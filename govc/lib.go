package main

// Models (assumed contracts) of standard-library and cgo functions.

import (
	"fmt"
	"go/ast"
	"go/token"
	"go/types"
	"math/big"
)

type libModel func(x *Exec, st *State, e *ast.CallExpr, recv *Val) []Val
type libMod func(x *Exec, ms *modSet, e *ast.CallExpr)

var libModels = map[string]libModel{}
var libMods = map[string]libMod{}

func bigPow2(n uint) *big.Int { return new(big.Int).Lsh(big.NewInt(1), n) }

var u8 = types.Typ[types.Uint8]

func init() {

	// ---- encoding/binary little endian ----
	for _, w := range []int{16, 32, 64} {
		w := w
		var rt types.Type
		switch w {
		case 16:
			rt = types.Typ[types.Uint16]
		case 32:
			rt = types.Typ[types.Uint32]
		default:
			rt = types.Typ[types.Uint64]
		}
		libModels[fmt.Sprintf("encoding/binary.littleEndian.Uint%d", w)] = func(x *Exec, st *State, e *ast.CallExpr, recv *Val) []Val {
			b := x.expr(st, e.Args[0])
			n := w / 8
			x.safety(st, "index", fmt.Sprintf("binary.LittleEndian.Uint%d: len >= %d: %s", w, n, exprString(e.Args[0])), x.idxLe(x.idxLit(int64(n)), b.Len))
			return []Val{{Typ: rt, T: x.leRead(st, b, 0, n, rt)}}
		}
		libModels[fmt.Sprintf("encoding/binary.littleEndian.PutUint%d", w)] = func(x *Exec, st *State, e *ast.CallExpr, recv *Val) []Val {
			b := x.expr(st, e.Args[0])
			v := x.expr(st, e.Args[1])
			n := w / 8
			x.safety(st, "index", fmt.Sprintf("binary.LittleEndian.PutUint%d: len >= %d: %s", w, n, exprString(e.Args[0])), x.idxLe(x.idxLit(int64(n)), b.Len))
			x.leWrite(st, b, 0, n, v.T, rt)
			return nil
		}
		libMods[fmt.Sprintf("encoding/binary.littleEndian.PutUint%d", w)] = func(x *Exec, ms *modSet, e *ast.CallExpr) {
			ms.add(memComp(u8), x.memSort(u8))
		}
	}

	libModels["bytes.Compare"] = func(x *Exec, st *State, e *ast.CallExpr, recv *Val) []Val {
		a := x.expr(st, e.Args[0])
		b := x.expr(st, e.Args[1])
		c := x.c
		r := x.freshVal(st, "bytescmp", types.Typ[types.Int])
		x.assumeGlobal(st, c.Eq(c.Eq(r.T, x.idxLit(0)), x.bytesEq(st, a, b)))
		return []Val{r}
	}
	libModels["bytes.Equal"] = func(x *Exec, st *State, e *ast.CallExpr, recv *Val) []Val {
		a := x.expr(st, e.Args[0])
		b := x.expr(st, e.Args[1])
		return []Val{{Typ: types.Typ[types.Bool], T: x.bytesEq(st, a, b)}}
	}

	// ---- sync/atomic ----
	atomicAdd := func(x *Exec, st *State, e *ast.CallExpr, recv *Val) []Val {
		lv := x.addrArgLV(st, e.Args[0])
		d := x.expr(st, e.Args[1])
		cur := x.load(st, lv)
		nv := Val{Typ: cur.Typ, T: x.arith(st, token.ADD, cur.T, d.T, cur.Typ, exprString(e))}
		x.store(st, lv, nv)
		x.abstract["sync/atomic operations are plain reads and writes (sequential view)"] = true
		return []Val{nv}
	}
	atomicMod := func(x *Exec, ms *modSet, e *ast.CallExpr) {
		if u, ok := ast.Unparen(e.Args[0]).(*ast.UnaryExpr); ok && u.Op == token.AND {
			sub := x.scanMods(&ast.AssignStmt{Lhs: []ast.Expr{u.X}, Tok: token.ASSIGN, Rhs: []ast.Expr{u.X}})
			ms.merge(sub)
		}
	}
	for _, n := range []string{"AddInt64", "AddInt32", "AddUint64", "AddUint32"} {
		libModels["sync/atomic."+n] = atomicAdd
		libMods["sync/atomic."+n] = atomicMod
	}
	for _, n := range []string{"LoadInt64", "LoadInt32", "LoadUint64", "LoadUint32"} {
		libModels["sync/atomic."+n] = func(x *Exec, st *State, e *ast.CallExpr, recv *Val) []Val {
			return []Val{x.load(st, x.addrArgLV(st, e.Args[0]))}
		}
	}
	for _, n := range []string{"StoreInt64", "StoreInt32", "StoreUint64", "StoreUint32"} {
		libModels["sync/atomic."+n] = func(x *Exec, st *State, e *ast.CallExpr, recv *Val) []Val {
			lv := x.addrArgLV(st, e.Args[0])
			x.store(st, lv, x.expr(st, e.Args[1]))
			return nil
		}
		libMods["sync/atomic."+n] = atomicMod
	}

	// ---- locks: ghost-free no-ops (lock semantics are assumed) ----
	for _, n := range []string{"sync.Mutex.Lock", "sync.Mutex.Unlock", "sync.RWMutex.Lock", "sync.RWMutex.Unlock", "sync.RWMutex.RLock", "sync.RWMutex.RUnlock"} {
		n := n
		libModels[n] = func(x *Exec, st *State, e *ast.CallExpr, recv *Val) []Val {
			x.abstract["locks are no-ops (sequential view; lock semantics assumed)"] = true
			x.lockEvent(st, n, recv)
			return nil
		}
		libMods[n] = func(x *Exec, ms *modSet, e *ast.CallExpr) { ms.add("ghost.lockdepth", SInt) }
	}

	// ---- time ----
	havoc := func(name string) libModel {
		return func(x *Exec, st *State, e *ast.CallExpr, recv *Val) []Val {
			for _, a := range e.Args {
				x.expr(st, a)
			}
			fn, _ := x.calleeFunc(e)
			x.abstract[name+": result unconstrained"] = true
			return x.havocResults(st, fn.Type().(*types.Signature), sanitize(name))
		}
	}
	libModels["time.Time.Unix"] = func(x *Exec, st *State, e *ast.CallExpr, recv *Val) []Val {
		// ghost clock: seconds since 1970, non-decreasing, below 2^40; ghostNow() is the last value read
		c := x.c
		prev := x.heapGet(st, "ghost.now", SInt)
		r := x.freshVal(st, "unixnow", types.Typ[types.Int64])
		var rm *Term
		if x.mode == "bv" {
			rm = c.app("bv2nat", SInt, r.T)
			x.assumeGlobal(st, c.bvcmp("bvsle", c.BV64(64, 0), r.T))
		} else {
			rm = r.T
		}
		x.assumeGlobal(st, c.And(c.Le(c.Int(0), rm), c.Le(prev, rm), c.Le(rm, c.IntBig(bigPow2(40))), c.Le(c.Int(0), prev)))
		x.heapSet(st, "ghost.now", rm)
		x.assumed["time.Time.Unix(): a non-decreasing clock value in [0, 2^40) (every Time value is treated as 'now')"] = true
		return []Val{r}
	}
	libMods["time.Time.Unix"] = func(x *Exec, ms *modSet, e *ast.CallExpr) { ms.add("ghost.now", SInt) }
	for _, n := range []string{"time.Now", "time.Since", "time.Time.UnixNano", "time.Time.Sub", "time.Duration.Seconds", "time.Time.Add",
		"time.Time.Before", "time.Time.After", "time.Duration.Nanoseconds", "time.Time.Format", "time.Unix",
		"unicode.IsControl", "unicode.IsSpace", "net/http.DetectContentType", "os.Getpid", "runtime.NumGoroutine"} {
		libModels[n] = havoc(n)
	}
	libModels["time.Sleep"] = func(x *Exec, st *State, e *ast.CallExpr, recv *Val) []Val { x.expr(st, e.Args[0]); return nil }

	// ---- strings / errors / fmt ----
	libModels["fmt.Sprintf"] = func(x *Exec, st *State, e *ast.CallExpr, recv *Val) []Val {
		x.evalForEffect(st, e.Args)
		x.abstract["fmt.Sprintf: fresh opaque string"] = true
		return []Val{x.freshVal(st, "sprintf", types.Typ[types.String])}
	}
	newErr := func(x *Exec, st *State, e *ast.CallExpr, recv *Val) []Val {
		x.evalForEffect(st, e.Args)
		r := x.c.Fresh("err", SInt)
		x.assumeGlobal(st, x.c.Gt(r, x.c.Int(embN)))
		fn, _ := x.calleeFunc(e)
		return []Val{{Typ: fn.Type().(*types.Signature).Results().At(0).Type(), T: r}}
	}
	libModels["fmt.Errorf"] = newErr
	libModels["errors.New"] = newErr
	libModels["error.Error"] = func(x *Exec, st *State, e *ast.CallExpr, recv *Val) []Val {
		return []Val{x.freshVal(st, "errstr", types.Typ[types.String])}
	}

	libModels["strconv.ParseInt"] = func(x *Exec, st *State, e *ast.CallExpr, recv *Val) []Val {
		// (i int64, err error); documented: err != nil => i is 0 or the clamped value; with
		// base 16 and a one-character argument and nil error the value is a hex digit 0..15
		s := x.expr(st, e.Args[0])
		base := x.expr(st, e.Args[1])
		x.expr(st, e.Args[2])
		c := x.c
		r := x.freshVal(st, "parseint", types.Typ[types.Int64])
		err := x.freshVal(st, "parseint_err", types.Universe.Lookup("error").Type())
		oneChar := c.Eq(c.App("str_len", s.T), x.idxLit(1))
		is16 := c.Eq(base.T, x.idxLit(16))
		lo, hi := x.intLit(types.Typ[types.Int64], big.NewInt(0)), x.intLit(types.Typ[types.Int64], big.NewInt(15))
		var inR *Term
		if x.mode == "bv" {
			inR = c.And(c.bvcmp("bvsle", lo, r.T), c.bvcmp("bvsle", r.T, hi))
		} else {
			inR = c.And(c.Le(lo, r.T), c.Le(r.T, hi))
		}
		x.assumeGlobal(st, c.Implies(c.And(oneChar, is16, c.Eq(err.T, c.Int(0))), inR))
		x.assumed["strconv.ParseInt(s,16,0) with len(s)==1 and nil error returns 0..15 (library contract)"] = true
		// value and well-formedness of the text are deterministic functions of (text, base); the
		// call succeeds iff the text is well formed and its value fits the requested bit size
		i64 := types.Typ[types.Int64]
		val := x.uninterp("uf_parseint_val_"+x.mode, x.scalarSort(i64), s.T, base.T)
		ok := x.uninterp("uf_parseint_ok_"+x.mode, SBool, s.T, base.T)
		if bits, isConst := x.constVal(e.Args[2]); isConst && bits.T.IsLit() {
			n := bits.T.SignedVal().Int64()
			if n == 0 {
				n = 64
			}
			if n >= 1 && n <= 64 {
				lim := new(big.Int).Lsh(big.NewInt(1), uint(n-1))
				loB, hiB := x.intLit(i64, new(big.Int).Neg(lim)), x.intLit(i64, new(big.Int).Sub(lim, big.NewInt(1)))
				var fits *Term
				if x.mode == "bv" {
					fits = c.And(c.bvcmp("bvsle", loB, val), c.bvcmp("bvsle", val, hiB))
				} else {
					fits = c.And(c.Le(loB, val), c.Le(val, hiB))
				}
				x.assume(st, c.Eq(c.Eq(err.T, c.Int(0)), c.And(ok, fits)))
				x.assume(st, c.Implies(c.Eq(err.T, c.Int(0)), c.Eq(r.T, val)))
				x.assumed["strconv.ParseInt: succeeds iff the text is a well-formed number in the base whose value fits the bit size, and then returns that value (library contract; text -> value is an uninterpreted function)"] = true
			}
		}
		return []Val{r, err}
	}
	libModels["strconv.Itoa"] = func(x *Exec, st *State, e *ast.CallExpr, recv *Val) []Val {
		x.expr(st, e.Args[0])
		s := x.freshVal(st, "itoa", types.Typ[types.String])
		n := x.c.App("str_len", s.T)
		x.assumeGlobal(st, x.c.And(x.idxLe(x.idxLit(1), n), x.idxLe(n, x.idxLit(20))))
		x.assumed["strconv.Itoa: a string of 1..20 bytes (library contract)"] = true
		return []Val{s}
	}
	// the value of a form field is a deterministic function of (request, field name): the form does
	// not change while a handler runs
	libModels["net/http.Request.FormValue"] = func(x *Exec, st *State, e *ast.CallExpr, recv *Val) []Val {
		name := x.expr(st, e.Args[0])
		x.assumed["http.Request.FormValue: a deterministic function of the request and the field name (uninterpreted)"] = true
		return []Val{{Typ: types.Typ[types.String], T: x.uninterp("uf_http_formvalue", x.scalarSort(types.Typ[types.String]), recv.T, name.T)}}
	}
	libModels["strings.HasSuffix"] = func(x *Exec, st *State, e *ast.CallExpr, recv *Val) []Val {
		a := x.expr(st, e.Args[0])
		b := x.expr(st, e.Args[1])
		x.assumed["strings.HasSuffix/HasPrefix: a deterministic predicate of the two strings (uninterpreted)"] = true
		return []Val{{Typ: types.Typ[types.Bool], T: x.uninterp("uf_strings_HasSuffix", SBool, a.T, b.T)}}
	}
	libModels["strings.HasPrefix"] = func(x *Exec, st *State, e *ast.CallExpr, recv *Val) []Val {
		a := x.expr(st, e.Args[0])
		b := x.expr(st, e.Args[1])
		x.assumed["strings.HasSuffix/HasPrefix: a deterministic predicate of the two strings (uninterpreted)"] = true
		return []Val{{Typ: types.Typ[types.Bool], T: x.uninterp("uf_strings_HasPrefix", SBool, a.T, b.T)}}
	}
	libModels["strconv.Atoi"] = func(x *Exec, st *State, e *ast.CallExpr, recv *Val) []Val {
		x.expr(st, e.Args[0])
		r := x.freshVal(st, "atoi", types.Typ[types.Int])
		err := x.freshVal(st, "atoi_err", types.Universe.Lookup("error").Type())
		x.assumed["strconv.Atoi: any int, any error (library contract)"] = true
		return []Val{r, err}
	}
}

func (x *Exec) evalForEffect(st *State, args []ast.Expr) {
	for _, a := range args {
		if _, ok := x.constVal(a); ok {
			continue
		}
		func() {
			defer func() {
				if r := recover(); r != nil {
					if _, ok := r.(*Abort); !ok {
						panic(r)
					}
				}
			}()
			saved := x.noOblig
			x.noOblig++
			defer func() { x.noOblig = saved }()
			x.expr(st, a)
		}()
	}
}

// addrArgLV: the lvalue behind an argument of the form &lv.
func (x *Exec) addrArgLV(st *State, a ast.Expr) LV {
	if u, ok := ast.Unparen(a).(*ast.UnaryExpr); ok && u.Op == token.AND {
		return x.lvalue(st, u.X)
	}
	p := x.expr(st, a)
	t := x.typeOf(a).Underlying().(*types.Pointer).Elem()
	return LV{kind: lvCell, ref: p.T, typ: t}
}

// leRead: little-endian read of n bytes from slice b at byte offset o.
func (x *Exec) leRead(st *State, b Val, o int64, n int, rt types.Type) *Term {
	c := x.c
	var acc *Term
	for i := 0; i < n; i++ {
		by := x.loadElem(st, b.Arr, x.idxAdd(b.Off, x.idxLit(o+int64(i))), u8).T
		var term *Term
		if x.mode == "bv" {
			term = c.ZeroExt(8*n-8, by)
			if i > 0 {
				term = c.bvbin("bvshl", term, c.BV64(8*n, int64(8*i)))
			}
			if acc == nil {
				acc = term
			} else {
				acc = c.bvbin("bvor", acc, term)
			}
		} else {
			term = c.Mul(by, c.IntBig(bigPow2(uint(8*i))))
			if acc == nil {
				acc = term
			} else {
				acc = c.Add(acc, term)
			}
		}
	}
	return acc
}

func (x *Exec) leWrite(st *State, b Val, o int64, n int, v *Term, vt types.Type) {
	c := x.c
	for i := 0; i < n; i++ {
		var by *Term
		if x.mode == "bv" {
			by = c.Extract(8*i+7, 8*i, v)
		} else {
			by = c.Mod(c.Div(v, c.IntBig(bigPow2(uint(8*i)))), c.Int(256))
		}
		x.storeElem(st, b.Arr, x.idxAdd(b.Off, x.idxLit(o+int64(i))), u8, Val{Typ: u8, T: by})
	}
}

// bytesEq: two byte slices have equal length and content. The result is stated as equality of the
// strings they denote (string values are extensional), linked both ways to the element-wise form.
func (x *Exec) bytesEq(st *State, a, b Val) *Term {
	c := x.c
	x.needStr()
	m := x.heapGet(st, memComp(u8), x.memSort(u8))
	ca, cb := c.Select(m, a.Arr), c.Select(m, b.Arr)
	j := c.Bound("j", x.idxSort())
	all := c.Forall([]*Term{j}, c.Implies(c.And(x.idxLe(x.idxLit(0), j), x.idxLt(j, a.Len)),
		c.Eq(c.Select(ca, x.idxAdd(a.Off, j)), c.Select(cb, x.idxAdd(b.Off, j)))))
	elem := c.And(c.Eq(a.Len, b.Len), all)
	strEq := c.Eq(c.App("str_of", ca, a.Off, a.Len), c.App("str_of", cb, b.Off, b.Len))
	if x.inQuant == 0 && !x.specMode {
		x.assumeGlobal(st, c.Eq(strEq, elem))
	}
	return strEq
}

// lockEvent keeps a ghost nesting depth so that contracts can talk about critical sections.
func (x *Exec) lockEvent(st *State, name string, recv *Val) {
	d := x.heapGet(st, "ghost.lockdepth", SInt)
	switch {
	case name == "sync.Mutex.Lock" || name == "sync.RWMutex.Lock" || name == "sync.RWMutex.RLock":
		x.heapSet(st, "ghost.lockdepth", x.c.Add(d, x.c.Int(1)))
	default:
		x.heapSet(st, "ghost.lockdepth", x.c.Sub(d, x.c.Int(1)))
	}
}

func init() {
	// sort.Search(n, f): smallest index in [0, n] from which on f holds (f assumed monotone; this is
	// the documented library contract): no index below the result satisfies f, the result does if < n.
	libModels["sort.Search"] = func(x *Exec, st *State, e *ast.CallExpr, recv *Val) []Val {
		c := x.c
		n := x.toIdx(st, x.expr(st, e.Args[0]))
		fl, ok := ast.Unparen(e.Args[1]).(*ast.FuncLit)
		if !ok || len(fl.Body.List) != 1 {
			x.fail("sort.Search: the predicate must be a function literal with a single return statement")
		}
		ret, ok := fl.Body.List[0].(*ast.ReturnStmt)
		if !ok || len(ret.Results) != 1 {
			x.fail("sort.Search: the predicate must be a function literal with a single return statement")
		}
		obj := x.info.Defs[fl.Type.Params.List[0].Names[0]]
		pred := func(i *Term) *Term {
			qs := st.clone()
			qs.vars[obj] = Val{Typ: types.Typ[types.Int], T: i}
			x.inQuant++
			defer func() { x.inQuant-- }()
			return x.expr(qs, ret.Results[0]).T
		}
		j := x.freshVal(st, "search", types.Typ[types.Int])
		zero := x.idxLit(0)
		x.assume(st, c.And(x.idxLe(zero, j.T), x.idxLe(j.T, n)))
		x.assume(st, c.Implies(x.idxLt(j.T, n), pred(j.T)))
		bv := c.Bound("i", x.idxSort())
		x.assume(st, c.Forall([]*Term{bv}, c.Implies(c.And(x.idxLe(zero, bv), x.idxLt(bv, j.T)), c.Not(pred(bv)))))
		x.assumed["sort.Search: library contract (first index satisfying a monotone predicate)"] = true
		return []Val{j}
	}
}
