package main

// Symbolic executor: values, state, heap model.

import (
	"fmt"
	"go/ast"
	"go/token"
	"go/types"
	"math/big"
	"sort"
	"strings"
)

const embN = 4096 // base of the embedded-object address arithmetic

// Val is the symbolic value of a Go expression.
// scalar (incl. pointer, map, string, struct-object ref, array-storage ref): T
// slice: Arr, Off, Len, Cap
type Val struct {
	T                  *Term
	Arr, Off, Len, Cap *Term
	Typ                types.Type
	Fn                 *ast.FuncLit // function literal value (only for inlining)
	FnObj              *types.Func  // named function value
}

func (v Val) IsSlice() bool { return v.Arr != nil }

type deferred struct {
	call *ast.CallExpr
	info *types.Info
	// operands of a deferred call that is not a closure are evaluated when the defer statement
	// executes (Go semantics): receiver and arguments, by expression node
	frozen map[ast.Expr]Val
}

type State struct {
	reach   *Term
	vars    map[types.Object]Val
	heap    map[string]*Term
	facts   []*Term
	defers  []deferred
	results []Val
	panicSt bool // state represents a panicking exit
}

func (s *State) clone() *State {
	n := &State{reach: s.reach, vars: make(map[types.Object]Val, len(s.vars)), heap: make(map[string]*Term, len(s.heap))}
	for k, v := range s.vars {
		n.vars[k] = v
	}
	for k, v := range s.heap {
		n.heap[k] = v
	}
	n.facts = s.facts[:len(s.facts):len(s.facts)]
	n.defers = s.defers[:len(s.defers):len(s.defers)]
	return n
}

type Obligation struct {
	Name        string
	Func        string
	Kind        string // requires, ensures, invariant, safety, frame, cover, ...
	Text        string
	Assumptions []*Term
	Goal        *Term
	Values      []*Term
	ValueNames  []string
	ExpectSat   bool // cover / canary obligations
	UnreachableOK bool // cover of a return site that the contract declares possibly dead
	Opaque      map[string]bool
	Split       []*Term // optional case split conditions (disjoint, exhaustive) used on unknown
	Pos         token.Position
	Cut         []*Term // earlier conjuncts of the same clause list (each an obligation of its own): usable as lemmas
	Timeout     int
	// result
	Status  string // unsat, sat, unknown, timeout, error
	Backend string
	Seconds float64
	Model   string
	Script  int // script bytes
	Retries int
	replayConfirmed bool
}

type loopCtx struct {
	breaks    []*State
	continues []*State
	label     string
	isSwitch  bool
}

type Abort struct{ Msg string }

func (a *Abort) Error() string { return a.Msg }

// Exec verifies one function (or translates one spec function).
type Exec struct {
	eng   *Engine
	c     *Ctx
	mode  string // bv | math
	con   *Contract
	pkg   *types.Package
	info  *types.Info // info for the function body
	infos []*types.Info
	key   string

	obls       []*Obligation
	counters   map[string]int
	entry      *State // snapshot at entry (after requires), for old()
	old        *State // state to use for old(...) (call-site or entry)
	returns    []*State
	loops      []*loopCtx
	boxed      map[types.Object]bool
	placehold  map[string]Val // result0.., __index
	assumed    map[string]bool
	abstract   map[string]bool
	specMode   bool
	scanningGhost bool
	frozen     map[ast.Expr]Val // pre-evaluated operands of the deferred call being run
	specDeps   *[]string
	specHeap   map[string]*Term
	inQuant    int
	loopOrd    map[ast.Stmt]int
	resultObjs []*types.Var
	rangeFacts map[int]bool
	noOblig    int // >0: suppress obligations (evaluating clauses)
	inlineDepth int
	retTarget  []*inlineFrame
	callCount  map[string]int
	curPos     token.Pos
	curClause  *Clause
	specs      map[string]*specInfo
	conSig     *types.Signature
	globalInit map[string]bool
	rootCon    *Contract
	callSeen   map[string]int
	inGhost    int
	fileParams map[int]bool // spec mode: bound parameters of type *os.File (they hold the file id)
	reliableIO bool
}

type inlineFrame struct {
	returns []*State
	sig     *types.Signature
	results []*types.Var
}

func (x *Exec) fail(format string, args ...interface{}) {
	pos := ""
	if x.curPos != token.NoPos {
		pos = x.eng.prog.Fset.Position(x.curPos).String() + ": "
	}
	panic(&Abort{pos + fmt.Sprintf(format, args...)})
}

// ---------- sorts ----------

func (x *Exec) idxSort() Sort {
	if x.mode == "bv" {
		return SBV(64)
	}
	return SInt
}

func basicWidth(b *types.Basic) (width int, signed bool, isInt bool) {
	switch b.Kind() {
	case types.Int, types.Int64, types.UntypedInt, types.UntypedRune:
		return 64, true, true
	case types.Int8:
		return 8, true, true
	case types.Int16:
		return 16, true, true
	case types.Int32:
		return 32, true, true
	case types.Uint, types.Uint64, types.Uintptr, types.UnsafePointer:
		return 64, false, true
	case types.Uint8:
		return 8, false, true
	case types.Uint16:
		return 16, false, true
	case types.Uint32:
		return 32, false, true
	}
	return 0, false, false
}

func intInfo(t types.Type) (width int, signed bool, ok bool) {
	if b, isB := t.Underlying().(*types.Basic); isB {
		return basicWidth(b)
	}
	return 0, false, false
}

func isString(t types.Type) bool {
	b, ok := t.Underlying().(*types.Basic)
	return ok && (b.Kind() == types.String || b.Kind() == types.UntypedString)
}
func isBool(t types.Type) bool {
	b, ok := t.Underlying().(*types.Basic)
	return ok && (b.Kind() == types.Bool || b.Kind() == types.UntypedBool)
}
func isFloat(t types.Type) bool {
	b, ok := t.Underlying().(*types.Basic)
	return ok && b.Info()&types.IsFloat != 0
}
func isStruct(t types.Type) bool { _, ok := t.Underlying().(*types.Struct); return ok }
func isArray(t types.Type) bool  { _, ok := t.Underlying().(*types.Array); return ok }
func isSliceT(t types.Type) bool { _, ok := t.Underlying().(*types.Slice); return ok }
func isObjType(t types.Type) bool { return isStruct(t) || isArray(t) }

// scalarSort: SMT sort of a non-slice value of Go type t.
func (x *Exec) scalarSort(t types.Type) Sort {
	switch u := t.Underlying().(type) {
	case *types.Basic:
		if isBool(t) {
			return SBool
		}
		if isString(t) {
			x.needStr()
			return SStr
		}
		if w, _, ok := basicWidth(u); ok {
			if x.mode == "bv" {
				return SBV(w)
			}
			return SInt
		}
		if isFloat(t) {
			return SInt // floats are never interpreted
		}
		if u.Kind() == types.UntypedNil {
			return SInt
		}
	case *types.Pointer, *types.Map, *types.Chan, *types.Signature, *types.Interface, *types.Struct, *types.Array:
		return SInt
	case *types.Slice:
		x.fail("scalarSort of slice type %s", t)
	}
	x.fail("unsupported type %s", t)
	return ""
}

func (x *Exec) needStr() {
	c := x.c
	if c.sorts["Str"] {
		return
	}
	c.sorts["Str"] = true
	idx := x.idxSort()
	var b8 Sort = SInt
	if x.mode == "bv" {
		b8 = SBV(8)
	}
	c.DeclareFun("str_len", []Sort{SStr}, idx)
	c.DeclareFun("str_bytes", []Sort{SStr}, SArr(idx, b8))
	c.DeclareFun("str_of", []Sort{SArr(idx, b8), idx, idx}, SStr)
	c.DeclareFun("str_sub", []Sort{SStr, idx, idx}, SStr)
	c.DeclareFun("str_lt", []Sort{SStr, SStr}, SBool)
	c.DeclareFun("str_cat", []Sort{SStr, SStr}, SStr)
	// axioms
	s := c.Bound("s", SStr)
	zero := x.idxLit(0)
	c.AddAxiom("str_len", c.Forall([]*Term{s}, x.idxLe(zero, c.App("str_len", s)), []*Term{c.App("str_len", s)}))
	a := c.Bound("a", SArr(idx, b8))
	o := c.Bound("o", idx)
	n := c.Bound("n", idx)
	so := c.App("str_of", a, o, n)
	c.AddAxiom("str_of", c.Forall([]*Term{a, o, n}, c.Implies(x.idxLe(zero, n), c.Eq(c.App("str_len", so), n)), []*Term{so}))
	i := c.Bound("i", idx)
	c.AddAxiom("str_of+str_bytes", c.Forall([]*Term{a, o, n, i}, c.Implies(c.And(x.idxLe(zero, i), x.idxLt(i, n)),
		c.Eq(c.Select(c.App("str_bytes", so), i), c.Select(a, x.idxAdd(o, i)))), []*Term{c.Select(c.App("str_bytes", so), i)}))
	// str_of(str_bytes(s), 0, len(s)) == s
	c.AddAxiom("str_bytes+str_of", c.Forall([]*Term{s}, c.Eq(c.App("str_of", c.App("str_bytes", s), zero, c.App("str_len", s)), s), []*Term{c.App("str_bytes", s)}))
	// str_sub
	lo := c.Bound("lo", idx)
	hi := c.Bound("hi", idx)
	sub := c.App("str_sub", s, lo, hi)
	c.AddAxiom("str_sub", c.Forall([]*Term{s, lo, hi}, c.Implies(c.And(x.idxLe(zero, lo), x.idxLe(lo, hi)), c.Eq(c.App("str_len", sub), x.idxSub(hi, lo))), []*Term{sub}))
	c.AddAxiom("str_sub+str_bytes", c.Forall([]*Term{s, lo, hi, i}, c.Implies(c.And(x.idxLe(zero, i), x.idxLt(i, x.idxSub(hi, lo))),
		c.Eq(c.Select(c.App("str_bytes", sub), i), c.Select(c.App("str_bytes", s), x.idxAdd(lo, i)))), []*Term{c.Select(c.App("str_bytes", sub), i)}))
	// str_lt irreflexive + total on distinct (enough for sorted-order reasoning with transitivity)
	t1 := c.Bound("t1", SStr)
	t2 := c.Bound("t2", SStr)
	t3 := c.Bound("t3", SStr)
	c.AddAxiom("str_lt", c.Forall([]*Term{t1, t2}, c.And(
		c.Not(c.And(c.App("str_lt", t1, t2), c.App("str_lt", t2, t1))),
		c.Or(c.App("str_lt", t1, t2), c.App("str_lt", t2, t1), c.Eq(t1, t2))), []*Term{c.App("str_lt", t1, t2)}))
	c.AddAxiom("str_lt", c.Forall([]*Term{t1, t2, t3}, c.Implies(c.And(c.App("str_lt", t1, t2), c.App("str_lt", t2, t3)), c.App("str_lt", t1, t3)),
		[]*Term{c.App("str_lt", t1, t2), c.App("str_lt", t2, t3)}))
	c.AddAxiom("str_lt", c.Forall([]*Term{t1}, c.Not(c.App("str_lt", t1, t1)), []*Term{c.App("str_lt", t1, t1)}))
}

// ---------- index arithmetic helpers (sort of Go int in the current mode) ----------

func (x *Exec) idxLit(v int64) *Term {
	if x.mode == "bv" {
		return x.c.BV64(64, v)
	}
	return x.c.Int(v)
}
func (x *Exec) idxAdd(a, b *Term) *Term {
	if x.mode == "bv" {
		return x.c.bvbin("bvadd", a, b)
	}
	return x.c.Add(a, b)
}
func (x *Exec) idxSub(a, b *Term) *Term {
	if x.mode == "bv" {
		return x.c.bvbin("bvsub", a, b)
	}
	return x.c.Sub(a, b)
}
func (x *Exec) idxLe(a, b *Term) *Term {
	if x.mode == "bv" {
		return x.c.bvcmp("bvsle", a, b)
	}
	return x.c.Le(a, b)
}
func (x *Exec) idxLt(a, b *Term) *Term {
	if x.mode == "bv" {
		return x.c.bvcmp("bvslt", a, b)
	}
	return x.c.Lt(a, b)
}

// intLit builds a literal of Go integer type t.
func (x *Exec) intLit(t types.Type, v *big.Int) *Term {
	w, _, ok := intInfo(t)
	if !ok {
		x.fail("intLit of non-integer type %s", t)
	}
	if x.mode == "bv" {
		return x.c.BV(w, v)
	}
	return x.c.IntBig(v)
}

func typeRange(w int, signed bool) (lo, hi *big.Int) {
	if signed {
		hi = new(big.Int).Lsh(big.NewInt(1), uint(w-1))
		lo = new(big.Int).Neg(hi)
		hi = new(big.Int).Sub(hi, big.NewInt(1))
		return
	}
	hi = new(big.Int).Lsh(big.NewInt(1), uint(w))
	hi.Sub(hi, big.NewInt(1))
	return big.NewInt(0), hi
}

// inRange: lo <= t <= hi for the integer type (math mode only).
func (x *Exec) inRange(t *Term, typ types.Type) *Term {
	w, s, ok := intInfo(typ)
	if !ok || x.mode != "math" {
		return x.c.True()
	}
	lo, hi := typeRange(w, s)
	return x.c.And(x.c.Le(x.c.IntBig(lo), t), x.c.Le(t, x.c.IntBig(hi)))
}

// ---------- facts and obligations ----------

func (x *Exec) assume(st *State, f *Term) {
	if f.IsTrue() {
		return
	}
	if x.specMode {
		return
	}
	st.facts = append(st.facts, x.c.Implies(st.reach, f))
}

// assumeGlobal adds a fact that holds independent of the path.
func (x *Exec) assumeGlobal(st *State, f *Term) {
	if f.IsTrue() || x.specMode {
		return
	}
	st.facts = append(st.facts, f)
}

func (x *Exec) oblName(kind string) string {
	x.counters[kind]++
	return fmt.Sprintf("%s/%s#%d", x.key, kind, x.counters[kind])
}

func (x *Exec) oblige(st *State, name, kind, text string, goal *Term) {
	if x.specMode || x.noOblig > 0 {
		return
	}
	if goal.IsTrue() || st.reach.IsFalse() {
		// trivially discharged by construction: still counted, recorded as "trivial"
		x.obls = append(x.obls, &Obligation{Name: name, Func: x.key, Kind: kind, Text: text, Goal: goal, Status: "unsat", Backend: "simplifier", Pos: x.eng.prog.Fset.Position(x.curPos)})
		return
	}
	o := &Obligation{Name: name, Func: x.key, Kind: kind, Text: text, Goal: goal, Pos: x.eng.prog.Fset.Position(x.curPos)}
	o.Assumptions = append(append([]*Term{}, st.facts...), st.reach)
	o.Opaque = x.con.Opaque
	o.Timeout = x.con.Timeout
	x.attachValues(o)
	x.obls = append(x.obls, o)
}

// safety emits a safety obligation (bounds, nil, overflow...).
func (x *Exec) safety(st *State, kind string, text string, goal *Term) {
	if x.specMode || x.noOblig > 0 || x.inQuant > 0 {
		return
	}
	if x.con != nil && x.con.NoSafety {
		return
	}
	if goal.IsTrue() {
		return
	}
	name := x.oblName("safety." + kind)
	x.oblige(st, name, "safety", text, goal)
	// after the check the condition may be assumed (execution continues only if it held)
	x.assume(st, goal)
}

func (x *Exec) attachValues(o *Obligation) {
	if x.entry == nil {
		return
	}
	o.Values = x.eng.entryValues
	o.ValueNames = x.eng.entryValueNames
}

// ---------- heap ----------

func (x *Exec) heapGet(st *State, name string, s Sort) *Term {
	if t, ok := st.heap[name]; ok {
		if t.sort != s {
			x.fail("heap component %s used with sorts %s and %s", name, t.sort, s)
		}
		return t
	}
	var t *Term
	if x.specMode {
		if b, ok := x.specHeap[name]; ok {
			t = b
		} else {
			t = x.c.Bound("H_"+name, s)
			x.specHeap[name] = t
			*x.specDeps = append(*x.specDeps, name)
		}
	} else {
		t = x.c.Const("H0_"+sanitize(name), s)
	}
	st.heap[name] = t
	if x.entry != nil && !x.specMode {
		// first touched after entry: the entry snapshot has the same initial symbol
		if _, ok := x.entry.heap[name]; !ok {
			x.entry.heap[name] = t
		}
		if x.old != nil && x.old != x.entry {
			if _, ok := x.old.heap[name]; !ok {
				x.old.heap[name] = t
			}
		}
	}
	return t
}

func (x *Exec) heapSet(st *State, name string, t *Term) {
	if x.specMode {
		x.fail("heap write in spec function (%s)", name)
	}
	// make sure the entry snapshot knows the initial symbol
	x.heapGet(st, name, t.sort)
	st.heap[name] = t
}

func typeKey(t types.Type) string {
	t = types.Unalias(t)
	if b, ok := t.(*types.Basic); ok {
		if b.Kind() == types.Uint8 {
			return "uint8"
		}
		if b.Kind() == types.Int32 {
			return "int32"
		}
		return b.Name()
	}
	if n, ok := t.(*types.Named); ok {
		if n.Obj().Pkg() != nil {
			return n.Obj().Pkg().Name() + "." + n.Obj().Name()
		}
		return n.Obj().Name()
	}
	return types.TypeString(t, func(p *types.Package) string { return p.Name() })
}

// embIndex assigns a stable small index to (struct type, field) pairs that hold by-value objects.
func (e *Engine) embIndex(key string) int64 {
	if i, ok := e.embIdx[key]; ok {
		return i
	}
	i := int64(len(e.embIdx) + 1)
	if i >= embN-2 {
		panic(&Abort{"too many embedded object sites"})
	}
	e.embIdx[key] = i
	return i
}

func (x *Exec) embRef(r *Term, structKey, field string) *Term {
	k := x.eng.embIndex(structKey + "." + field)
	return x.c.Add(x.c.Mul(r, x.c.Int(embN)), x.c.Int(k))
}

// elemRef: address of the i-th by-value object element of array storage arr.
func (x *Exec) elemRef(arr, i *Term) *Term {
	c := x.c
	idx := x.idxSort()
	if _, ok := c.funcs["elemref"]; !ok {
		c.DeclareFun("elemref", []Sort{SInt, idx}, SInt)
		c.DeclareFun("elemref_arr", []Sort{SInt}, SInt)
		c.DeclareFun("elemref_idx", []Sort{SInt}, idx)
		a := c.Bound("a", SInt)
		j := c.Bound("j", idx)
		e := c.App("elemref", a, j)
		c.AddAxiom("elemref", c.Forall([]*Term{a, j}, c.And(
			c.Eq(c.App("elemref_arr", e), a),
			c.Eq(c.App("elemref_idx", e), j),
			c.Eq(c.Mod(e, c.Int(embN)), c.Int(embN-1)),
			c.Gt(e, c.Int(0)), c.Ge(e, a)), []*Term{e}))
		ev := c.Bound("e", SInt)
		c.AddAxiom("elemref_arr", c.Forall([]*Term{ev}, c.Le(c.App("elemref_arr", ev), ev), []*Term{c.App("elemref_arr", ev)}))
	}
	return c.App("elemref", arr, i)
}

func fieldComp(structKey, field string) string { return "F." + structKey + "." + field }

// memComp: element memory for scalar element type.
func memComp(elem types.Type) string { return "M." + typeKey(elem) }

func (x *Exec) elemSort(elem types.Type) Sort { return x.scalarSort(elem) }

func (x *Exec) memSort(elem types.Type) Sort {
	return SArr(SInt, SArr(x.idxSort(), x.elemSort(elem)))
}

// zeroVal of a scalar type
func (x *Exec) zeroScalar(t types.Type) *Term {
	if isBool(t) {
		return x.c.False()
	}
	if isString(t) {
		return x.strConst("")
	}
	if _, _, ok := intInfo(t); ok {
		return x.intLit(t, big.NewInt(0))
	}
	return x.c.Int(0)
}

func (x *Exec) strConst(s string) *Term {
	x.needStr()
	name := fmt.Sprintf("strlit_%x", s)
	if len(name) > 80 {
		name = fmt.Sprintf("strlit_h%x_%d", hashString(s), len(s))
	}
	t := x.c.Const(name, SStr)
	if !x.eng.strLits[name] {
		x.eng.strLits[name] = true
		x.eng.strLitVals[name] = s
	}
	return t
}

func hashString(s string) uint64 {
	var h uint64 = 14695981039346656037
	for i := 0; i < len(s); i++ {
		h ^= uint64(s[i])
		h *= 1099511628211
	}
	return h
}

// strLitFacts: facts about the string literals used (length, bytes of short ones, distinctness).
func (x *Exec) strLitFacts() []*Term {
	var names []string
	for n := range x.eng.strLits {
		names = append(names, n)
	}
	sort.Strings(names)
	var out []*Term
	c := x.c
	for i, n := range names {
		s := x.eng.strLitVals[n]
		t := c.Const(n, SStr)
		out = append(out, c.Eq(c.App("str_len", t), x.idxLit(int64(len(s)))))
		if len(s) <= 16 {
			for j := 0; j < len(s); j++ {
				out = append(out, c.Eq(c.Select(c.App("str_bytes", t), x.idxLit(int64(j))), x.byteLit(int64(s[j]))))
			}
		}
		for _, m := range names[i+1:] {
			out = append(out, c.Neq(t, c.Const(m, SStr)))
		}
	}
	return out
}

func (x *Exec) byteLit(v int64) *Term {
	if x.mode == "bv" {
		return x.c.BV64(8, v)
	}
	return x.c.Int(v)
}

// allocRef allocates a fresh top-level object reference.
func (x *Exec) allocRef(st *State, what string) *Term {
	if x.specMode {
		x.fail("allocation in spec function")
	}
	c := x.c
	r := c.Fresh("new_"+what, SInt)
	// bump allocation: a new root lies above everything that exists (the frontier ghost.brk), and
	// the next allocation lies above all interior addresses of this object (three nesting levels).
	// "allocated" means below the frontier; no allocation set is kept.
	brk := x.heapGet(st, "ghost.brk", SInt)
	x.assumeGlobal(st, c.And(c.Gt(r, c.Int(embN*embN)), c.Eq(c.Mod(r, c.Int(embN)), c.Int(0)), c.Ge(r, brk)))
	n3 := c.Int(embN * embN * embN)
	x.heapSet(st, "ghost.brk", c.Add(c.Mul(r, n3), n3))
	return r
}

// belowBrk: a reference obtained from the state lies below the allocation frontier — below the
// entry frontier if it was read from an untouched entry component.
func (x *Exec) belowBrk(st *State, t *Term) *Term {
	c := x.c
	now := c.Lt(t, x.heapGet(st, "ghost.brk", SInt))
	if r := entryReadIndex(t); r != nil {
		// a value stored in an object that existed at entry is an entry value
		brk0 := c.Const("H0_ghost.brk", SInt)
		return c.And(now, c.Implies(c.Lt(embRoot(r), brk0), c.Lt(t, brk0)))
	}
	return now
}

// entryReadIndex: for select(H0_x, r) or select(select(H0_x, r), i) the object reference r; else nil.
func entryReadIndex(t *Term) *Term {
	if t.kind != kApp || t.op != "select" {
		return nil
	}
	a := t.args[0]
	if a.kind == kConst && strings.HasPrefix(a.op, "H0_") {
		if t.args[1].sort == SInt {
			return t.args[1]
		}
		return nil
	}
	if a.kind == kApp && a.op == "select" && a.args[0].kind == kConst && strings.HasPrefix(a.args[0].op, "H0_") && a.args[1].sort == SInt {
		return a.args[1]
	}
	return nil
}

func isEntryRead(t *Term) bool {
	for t.kind == kApp && t.op == "select" {
		t = t.args[0]
	}
	return t.kind == kConst && strings.HasPrefix(t.op, "H0_")
}

func (x *Exec) isAlloc(st *State, r *Term) *Term {
	return x.c.Lt(embRoot(r), x.heapGet(st, "ghost.brk", SInt))
}

// noteRead adds type-invariant facts about a value just read from a symbolic source.
func (x *Exec) noteRead(st *State, t *Term, typ types.Type) {
	if x.specMode || x.inQuant > 0 || t.IsLit() || t.bound {
		return
	}
	if x.rangeFacts[t.id] {
		return
	}
	switch typ.Underlying().(type) {
	case *types.Basic:
		if x.mode == "math" {
			if _, _, ok := intInfo(typ); ok {
				x.rangeFacts[t.id] = true
				x.assumeGlobal(st, x.inRange(t, typ))
			}
		}
	case *types.Pointer, *types.Map:
		x.rangeFacts[t.id] = true
		// references read from the heap are nil or allocated (Go memory safety), never negative
		x.assumeGlobal(st, x.c.And(x.c.Ge(t, x.c.Int(0)), x.belowBrk(st, t)))
	}
}

func (x *Exec) noteSlice(st *State, v Val) {
	if x.specMode || x.inQuant > 0 || v.Len.IsLit() || v.Len.bound {
		return
	}
	if x.rangeFacts[v.Len.id] {
		return
	}
	x.rangeFacts[v.Len.id] = true
	zero := x.idxLit(0)
	c := x.c
	f := c.And(x.idxLe(zero, v.Off), x.idxLe(zero, v.Len), x.idxLe(v.Len, v.Cap), c.Ge(v.Arr, c.Int(0)),
		c.Implies(c.Eq(v.Arr, c.Int(0)), c.And(c.Eq(v.Len, zero), c.Eq(v.Cap, zero))))
	if x.mode == "math" {
		max := c.IntBig(new(big.Int).Lsh(big.NewInt(1), 62))
		f = c.And(f, c.Le(v.Off, max), c.Le(v.Cap, max))
	} else {
		// off+cap does not overflow: both below 2^62
		max := c.BV(64, new(big.Int).Lsh(big.NewInt(1), 62))
		f = c.And(f, c.bvcmp("bvsle", v.Off, max), c.bvcmp("bvsle", v.Cap, max))
	}
	// the backing array of a slice reachable from the state exists (nil or allocated)
	if v.Arr.kind != kIntLit {
		f = c.And(f, x.belowBrk(st, v.Arr))
	}
	x.assumeGlobal(st, f)
}

// ---------- value construction ----------

// freshVal makes an unconstrained value of type t (with type invariants assumed).
func (x *Exec) freshVal(st *State, name string, t types.Type) Val {
	if isSliceT(t) {
		v := Val{Typ: t,
			Arr: x.c.Fresh(name+"_arr", SInt), Off: x.c.Fresh(name+"_off", x.idxSort()),
			Len: x.c.Fresh(name+"_len", x.idxSort()), Cap: x.c.Fresh(name+"_cap", x.idxSort())}
		x.noteSlice(st, v)
		return v
	}
	v := Val{Typ: t, T: x.c.Fresh(name, x.scalarSort(t))}
	x.noteRead(st, v.T, t)
	if isObjType(t) {
		x.assumeGlobal(st, x.c.Gt(v.T, x.c.Int(0)))
	}
	return v
}

func (x *Exec) zeroVal(st *State, t types.Type) Val {
	if isSliceT(t) {
		z := x.idxLit(0)
		return Val{Typ: t, Arr: x.c.Int(0), Off: z, Len: z, Cap: z}
	}
	if isObjType(t) {
		r := x.allocRef(st, "zero")
		x.zeroObject(st, r, t)
		return Val{Typ: t, T: r}
	}
	return Val{Typ: t, T: x.zeroScalar(t)}
}

// zeroObject writes zero values to every leaf of the object at r.
func (x *Exec) zeroObject(st *State, r *Term, t types.Type) {
	switch u := t.Underlying().(type) {
	case *types.Struct:
		sk := typeKey(t)
		for i := 0; i < u.NumFields(); i++ {
			f := u.Field(i)
			ft := f.Type()
			if isObjType(ft) {
				x.zeroObject(st, x.embRef(r, sk, f.Name()), ft)
				continue
			}
			x.storeField(st, r, sk, f.Name(), ft, x.zeroValNoAlloc(ft))
		}
	case *types.Array:
		el := u.Elem()
		if isObjType(el) {
			if u.Len() > 64 {
				// large arrays of objects are left unconstrained (only their identity matters)
				return
			}
			for i := int64(0); i < u.Len(); i++ {
				x.zeroObject(st, x.elemRef(r, x.idxLit(i)), el)
			}
			return
		}
		if isSliceT(el) {
			return
		}
		comp := memComp(el)
		m := x.heapGet(st, comp, x.memSort(el))
		zeroArr := x.c.app(fmt.Sprintf("(as const %s)", SArr(x.idxSort(), x.elemSort(el))), SArr(x.idxSort(), x.elemSort(el)), x.zeroScalar(el))
		x.heapSet(st, comp, x.c.Store(m, r, zeroArr))
	}
}

func (x *Exec) zeroValNoAlloc(t types.Type) Val {
	if isSliceT(t) {
		z := x.idxLit(0)
		return Val{Typ: t, Arr: x.c.Int(0), Off: z, Len: z, Cap: z}
	}
	return Val{Typ: t, T: x.zeroScalar(t)}
}

// ---------- field and element access ----------

func (x *Exec) loadField(st *State, r *Term, structKey, field string, ft types.Type) Val {
	if isObjType(ft) {
		return Val{Typ: ft, T: x.embRef(r, structKey, field)}
	}
	base := fieldComp(structKey, field)
	if isSliceT(ft) {
		is := x.idxSort()
		v := Val{Typ: ft,
			Arr: x.c.Select(x.heapGet(st, base+"#arr", SArr(SInt, SInt)), r),
			Off: x.c.Select(x.heapGet(st, base+"#off", SArr(SInt, is)), r),
			Len: x.c.Select(x.heapGet(st, base+"#len", SArr(SInt, is)), r),
			Cap: x.c.Select(x.heapGet(st, base+"#cap", SArr(SInt, is)), r)}
		x.noteSlice(st, v)
		return v
	}
	s := x.scalarSort(ft)
	x.rangeAxiom(st, base, SArr(SInt, s), ft, false)
	t := x.c.Select(x.heapGet(st, base, SArr(SInt, s)), r)
	x.noteRead(st, t, ft)
	return Val{Typ: ft, T: t}
}

// rangeAxiom: in math mode every element of an integer-typed heap component lies in its type's
// range (a type invariant of every reachable state). Reads outside quantifiers get a per-read fact
// (noteRead); reads under a quantifier need the fact for every index, so the current value of the
// component is walked down to its base symbols (entry value, havoc values of loops and calls) and
// each of them gets one quantified range axiom; values stored on the way are program values of
// the element type and get their own (quantifier-free) range fact.
func (x *Exec) rangeAxiom(st *State, comp string, srt Sort, elemT types.Type, twoLevel bool) {
	if x.mode != "math" {
		return
	}
	if _, _, ok := intInfo(elemT); !ok {
		return
	}
	x.eng.compElem[comp] = compInfo{elemT, srt, twoLevel}
	if x.specMode {
		// the heap is a parameter of the spec function here; the axiom is added where the
		// function is applied to an actual heap (specApp)
		return
	}
	h := x.heapGet(st, comp, srt)
	key := fmt.Sprintf("range:%s:%d", comp, h.id)
	if x.globalInit[key] {
		return
	}
	x.globalInit[key] = true
	c := x.c
	seen := map[int]bool{}
	var walk func(t *Term, level int)
	walk = func(t *Term, level int) {
		k := t.id*2 + level
		if seen[k] {
			return
		}
		seen[k] = true
		switch {
		case t.kind == kConst:
			sk := fmt.Sprintf("rangesym:%s:%d", t.op, level)
			if x.globalInit[sk] {
				return
			}
			x.globalInit[sk] = true
			switch {
			case level == 0 && !twoLevel:
				r := c.Bound("r", SInt)
				e := c.Select(t, r)
				x.assumeGlobal(st, c.Forall([]*Term{r}, x.inRange(e, elemT), []*Term{e}))
			case level == 0 && twoLevel:
				is, inner := t.sort.ArrayParts()
				_ = is
				ks, _ := inner.ArrayParts()
				r := c.Bound("r", SInt)
				i := c.Bound("i", ks)
				e := c.Select(c.Select(t, r), i)
				x.assumeGlobal(st, c.Forall([]*Term{r, i}, x.inRange(e, elemT), []*Term{e}))
			default:
				ks, _ := t.sort.ArrayParts()
				i := c.Bound("i", ks)
				e := c.Select(t, i)
				x.assumeGlobal(st, c.Forall([]*Term{i}, x.inRange(e, elemT), []*Term{e}))
			}
		case t.kind == kApp && t.op == "store":
			walk(t.args[0], level)
			v := t.args[2]
			if twoLevel && level == 0 {
				walk(v, 1)
			} else if !v.bound && !v.IsLit() {
				vk := fmt.Sprintf("rangeval:%d", v.id)
				if !x.globalInit[vk] {
					x.globalInit[vk] = true
					x.assumeGlobal(st, x.inRange(v, elemT))
				}
			}
		case t.kind == kApp && t.op == "ite":
			walk(t.args[1], level)
			walk(t.args[2], level)
		case t.kind == kApp && t.op == "select" && twoLevel && level == 1:
			walk(t.args[0], 0)
		}
	}
	walk(h, 0)
}

func (x *Exec) storeField(st *State, r *Term, structKey, field string, ft types.Type, v Val) {
	if isObjType(ft) {
		x.copyObject(st, x.embRef(r, structKey, field), v.T, ft)
		return
	}
	base := fieldComp(structKey, field)
	if isSliceT(ft) {
		is := x.idxSort()
		x.heapSet(st, base+"#arr", x.c.Store(x.heapGet(st, base+"#arr", SArr(SInt, SInt)), r, v.Arr))
		x.heapSet(st, base+"#off", x.c.Store(x.heapGet(st, base+"#off", SArr(SInt, is)), r, v.Off))
		x.heapSet(st, base+"#len", x.c.Store(x.heapGet(st, base+"#len", SArr(SInt, is)), r, v.Len))
		x.heapSet(st, base+"#cap", x.c.Store(x.heapGet(st, base+"#cap", SArr(SInt, is)), r, v.Cap))
		return
	}
	s := x.scalarSort(ft)
	if v.T == nil {
		x.fail("storeField %s.%s: value has no scalar term", structKey, field)
	}
	x.heapSet(st, base, x.c.Store(x.heapGet(st, base, SArr(SInt, s)), r, v.T))
}

// copyObject copies every leaf of the object at src to dst (struct or array of type t).
func (x *Exec) copyObject(st *State, dst, src *Term, t types.Type) {
	if dst == src {
		return
	}
	switch u := t.Underlying().(type) {
	case *types.Struct:
		sk := typeKey(t)
		for i := 0; i < u.NumFields(); i++ {
			f := u.Field(i)
			if isObjType(f.Type()) {
				x.copyObject(st, x.embRef(dst, sk, f.Name()), x.embRef(src, sk, f.Name()), f.Type())
				continue
			}
			x.storeField(st, dst, sk, f.Name(), f.Type(), x.loadField(st, src, sk, f.Name(), f.Type()))
		}
	case *types.Array:
		el := u.Elem()
		if isObjType(el) {
			if u.Len() > 64 {
				x.fail("copy of large array of objects")
			}
			for i := int64(0); i < u.Len(); i++ {
				x.copyObject(st, x.elemRef(dst, x.idxLit(i)), x.elemRef(src, x.idxLit(i)), el)
			}
			return
		}
		comp := memComp(el)
		m := x.heapGet(st, comp, x.memSort(el))
		x.heapSet(st, comp, x.c.Store(m, dst, x.c.Select(m, src)))
	}
}

// objEq: structural equality of two objects.
func (x *Exec) objEq(st *State, a, b *Term, t types.Type) *Term {
	c := x.c
	switch u := t.Underlying().(type) {
	case *types.Struct:
		sk := typeKey(t)
		var cs []*Term
		for i := 0; i < u.NumFields(); i++ {
			f := u.Field(i)
			if isObjType(f.Type()) {
				cs = append(cs, x.objEq(st, x.embRef(a, sk, f.Name()), x.embRef(b, sk, f.Name()), f.Type()))
				continue
			}
			if isSliceT(f.Type()) {
				x.fail("comparison of struct with slice field")
			}
			cs = append(cs, c.Eq(x.loadField(st, a, sk, f.Name(), f.Type()).T, x.loadField(st, b, sk, f.Name(), f.Type()).T))
		}
		return c.And(cs...)
	case *types.Array:
		el := u.Elem()
		if isObjType(el) || u.Len() > 64 {
			x.fail("comparison of arrays of objects / large arrays")
		}
		var cs []*Term
		for i := int64(0); i < u.Len(); i++ {
			cs = append(cs, c.Eq(x.loadElem(st, a, x.idxLit(i), el).T, x.loadElem(st, b, x.idxLit(i), el).T))
		}
		return c.And(cs...)
	}
	x.fail("objEq on %s", t)
	return nil
}

// loadElem reads element idx (absolute index into storage arr).
func (x *Exec) loadElem(st *State, arr, idx *Term, el types.Type) Val {
	if isObjType(el) {
		return Val{Typ: el, T: x.elemRef(arr, idx)}
	}
	if isSliceT(el) {
		base := "M." + typeKey(el)
		is := x.idxSort()
		rd := func(suffix string, s Sort) *Term {
			return x.c.Select(x.c.Select(x.heapGet(st, base+suffix, SArr(SInt, SArr(is, s))), arr), idx)
		}
		v := Val{Typ: el, Arr: rd("#arr", SInt), Off: rd("#off", is), Len: rd("#len", is), Cap: rd("#cap", is)}
		x.noteSlice(st, v)
		return v
	}
	x.rangeAxiom(st, memComp(el), x.memSort(el), el, true)
	m := x.heapGet(st, memComp(el), x.memSort(el))
	t := x.c.Select(x.c.Select(m, arr), idx)
	x.noteRead(st, t, el)
	return Val{Typ: el, T: t}
}

func (x *Exec) storeElem(st *State, arr, idx *Term, el types.Type, v Val) {
	if isObjType(el) {
		x.copyObject(st, x.elemRef(arr, idx), v.T, el)
		return
	}
	if isSliceT(el) {
		base := "M." + typeKey(el)
		is := x.idxSort()
		wr := func(suffix string, s Sort, val *Term) {
			m := x.heapGet(st, base+suffix, SArr(SInt, SArr(is, s)))
			x.heapSet(st, base+suffix, x.c.Store(m, arr, x.c.Store(x.c.Select(m, arr), idx, val)))
		}
		wr("#arr", SInt, v.Arr)
		wr("#off", is, v.Off)
		wr("#len", is, v.Len)
		wr("#cap", is, v.Cap)
		return
	}
	comp := memComp(el)
	m := x.heapGet(st, comp, x.memSort(el))
	x.heapSet(st, comp, x.c.Store(m, arr, x.c.Store(x.c.Select(m, arr), idx, v.T)))
}

// ---------- merging ----------

func (x *Exec) mergeVal(cond *Term, a, b Val) (Val, bool) {
	c := x.c
	if a.IsSlice() != b.IsSlice() {
		return Val{}, false
	}
	if a.IsSlice() {
		return Val{Typ: a.Typ, Arr: c.Ite(cond, a.Arr, b.Arr), Off: c.Ite(cond, a.Off, b.Off), Len: c.Ite(cond, a.Len, b.Len), Cap: c.Ite(cond, a.Cap, b.Cap)}, true
	}
	if a.T == nil || b.T == nil {
		if a.Fn == b.Fn && a.FnObj == b.FnObj {
			return a, true
		}
		return Val{}, false
	}
	if a.T.sort != b.T.sort {
		return Val{}, false
	}
	return Val{Typ: a.Typ, T: c.Ite(cond, a.T, b.T)}, true
}

// merge2 merges two states; cond selects a.
func (x *Exec) merge2(cond *Term, a, b *State) *State {
	c := x.c
	n := &State{reach: c.Or(a.reach, b.reach), vars: map[types.Object]Val{}, heap: map[string]*Term{}}
	for k, va := range a.vars {
		if vb, ok := b.vars[k]; ok {
			if mv, ok := x.mergeVal(cond, va, vb); ok {
				n.vars[k] = mv
			}
		}
	}
	for k, ha := range a.heap {
		hb, ok := b.heap[k]
		if !ok {
			hb = x.heapGet(b, k, ha.sort)
		}
		n.heap[k] = c.Ite(cond, ha, hb)
	}
	for k, hb := range b.heap {
		if _, ok := a.heap[k]; !ok {
			ha := x.heapGet(a, k, hb.sort)
			n.heap[k] = c.Ite(cond, ha, hb)
		}
	}
	// facts: common prefix + both suffixes (dedup)
	seen := map[int]bool{}
	for _, f := range a.facts {
		if !seen[f.id] {
			seen[f.id] = true
			n.facts = append(n.facts, f)
		}
	}
	for _, f := range b.facts {
		if !seen[f.id] {
			seen[f.id] = true
			n.facts = append(n.facts, f)
		}
	}
	// defers must agree
	if len(a.defers) != len(b.defers) {
		x.fail("merge of states with different deferred calls (conditional defer)")
	}
	n.defers = a.defers
	if len(a.results) == len(b.results) {
		for i := range a.results {
			mv, ok := x.mergeVal(cond, a.results[i], b.results[i])
			if !ok {
				x.fail("cannot merge result values")
			}
			n.results = append(n.results, mv)
		}
	}
	return n
}

func (x *Exec) mergeN(states []*State) *State {
	var live []*State
	for _, s := range states {
		if s != nil && !s.reach.IsFalse() {
			live = append(live, s)
		}
	}
	if len(live) == 0 {
		return nil
	}
	cur := live[len(live)-1]
	for i := len(live) - 2; i >= 0; i-- {
		cur = x.merge2(live[i].reach, live[i], cur)
	}
	return cur
}

func describeType(t types.Type) string {
	return strings.ReplaceAll(types.TypeString(t, nil), repoModule+"/", "")
}
