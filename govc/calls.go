package main

// Calls: conversions, builtins, library models, contracts, inlining, spec functions.

import (
	"go/constant"
	"fmt"
	"go/ast"
	"go/token"
	"go/types"
	"strings"
)

func (x *Exec) calleeFunc(e *ast.CallExpr) (*types.Func, *types.Selection) {
	switch f := ast.Unparen(e.Fun).(type) {
	case *ast.Ident:
		if fn, ok := x.info.Uses[f].(*types.Func); ok {
			return fn, nil
		}
	case *ast.SelectorExpr:
		if sel, ok := x.info.Selections[f]; ok {
			if fn, ok := sel.Obj().(*types.Func); ok {
				return fn, sel
			}
			return nil, sel
		}
		if fn, ok := x.info.Uses[f.Sel].(*types.Func); ok {
			return fn, nil
		}
	}
	return nil, nil
}

func (x *Exec) isSpecFunc(fn *types.Func) bool {
	if fn.Pkg() == nil {
		return false
	}
	pos := x.eng.prog.Fset.Position(fn.Pos())
	return isContractFile(pos.Filename)
}

func (x *Exec) call(st *State, e *ast.CallExpr) []Val {
	res := x.call0(st, e)
	if x.con != nil && len(x.con.Ghosts) > 0 && !x.specMode && x.noOblig == 0 && x.inlineDepth == 0 && x.curClause == nil {
		name := calleeName(e)
		x.callSeen[name]++
		for _, g := range x.con.Ghosts {
			if g.Anchor == "after" && g.Callee == name && (g.Ord == x.callSeen[name] || g.Ord == 0) && !st.reach.IsFalse() {
				x.runGhost(st, g)
			}
		}
	}
	return res
}

// runGhost executes a ghost call: its preconditions become obligations, its postconditions facts.
func (x *Exec) runGhost(st *State, g *GhostStmt) {
	savedInfo, savedClause := x.info, x.curClause
	x.info, x.curClause = g.Clause.Info, g.Clause
	x.inGhost++
	defer func() { x.inGhost--; x.info, x.curClause = savedInfo, savedClause }()
	e := g.Clause.Expr
	// optional guard: cond ==> call   (desugared to !(cond) || (call))
	if b, ok := ast.Unparen(e).(*ast.BinaryExpr); ok && b.Op == token.LOR {
		if u, ok := ast.Unparen(b.X).(*ast.UnaryExpr); ok && u.Op == token.NOT {
			x.noOblig++
			cond := x.expr(st, u.X).T
			x.noOblig--
			saved := st.reach
			st.reach = x.c.And(st.reach, cond)
			if !st.reach.IsFalse() {
				x.expr(st, b.Y)
			}
			st.reach = saved
			return
		}
	}
	x.expr(st, e)
}

func (x *Exec) call0(st *State, e *ast.CallExpr) []Val {
	x.curPos = e.Pos()
	// conversion
	if tv, ok := x.info.Types[e.Fun]; ok && tv.IsType() {
		return []Val{x.conversion(st, e, tv.Type)}
	}
	// builtin
	if id, ok := ast.Unparen(e.Fun).(*ast.Ident); ok {
		if b, ok := x.info.Uses[id].(*types.Builtin); ok {
			return x.builtin(st, e, b.Name())
		}
	}
	fn, sel := x.calleeFunc(e)
	if fn == nil {
		return x.callFuncValue(st, e, sel)
	}
	key := fnKey(fn)
	sig := fn.Type().(*types.Signature)

	// quantifiers and other translator-level functions of the spec part
	if x.isSpecFunc(fn) {
		if (strings.HasPrefix(fn.Name(), "forall") || strings.HasPrefix(fn.Name(), "exists")) && len(e.Args) == 1 {
			return []Val{x.typedQuantifier(st, e, strings.HasPrefix(fn.Name(), "forall"))}
		}
		switch fn.Name() {
		case "forall", "exists":
			return []Val{x.quantifier(st, e, fn.Name() == "forall")}
		case "all", "elems", "fieldof":
			x.fail("%s(...) is only meaningful in a modifies clause", fn.Name())
		case "allocated":
			// allocated(p): p is nil or an object that exists in the current state
			v := x.expr(st, e.Args[0])
			ref := v.T
			if v.IsSlice() {
				ref = v.Arr
			}
			return []Val{{Typ: types.Typ[types.Bool], T: x.c.Or(x.c.Eq(ref, x.c.Int(0)), x.isAlloc(st, ref))}}
		case "fresh":
			// fresh(p): p was allocated by this call (not allocated in the pre-state)
			v := x.expr(st, e.Args[0])
			pre := x.old
			if pre == nil {
				x.fail("fresh(...) outside a postcondition")
			}
			ref := v.T
			if v.IsSlice() {
				ref = v.Arr
			}
			// fresh: a root object at or above the frontier of the pre-state and below the current one
			preBrk := x.heapGet(pre, "ghost.brk", SInt)
			nowBrk := x.heapGet(st, "ghost.brk", SInt)
			return []Val{{Typ: types.Typ[types.Bool], T: x.c.And(x.c.Neq(ref, x.c.Int(0)), x.c.Ge(ref, preBrk), x.c.Lt(ref, nowBrk), x.c.Eq(x.c.Mod(ref, x.c.Int(embN)), x.c.Int(0)))}}
		case "sameArray":
			a := x.expr(st, e.Args[0])
			b := x.expr(st, e.Args[1])
			return []Val{{Typ: types.Typ[types.Bool], T: x.c.Eq(a.Arr, b.Arr)}}
		}
		if strings.HasPrefix(fn.Name(), "sameArray") && len(e.Args) == 2 {
			// sameArrayXxx(a, b) for slices of any one element type (declared per type in the contract file)
			a := x.expr(st, e.Args[0])
			b := x.expr(st, e.Args[1])
			if a.IsSlice() && b.IsSlice() {
				return []Val{{Typ: types.Typ[types.Bool], T: x.c.Eq(a.Arr, b.Arr)}}
			}
		}
		switch fn.Name() {
		case "sameSlice":
			a := x.expr(st, e.Args[0])
			b := x.expr(st, e.Args[1])
			c := x.c
			return []Val{{Typ: types.Typ[types.Bool], T: c.And(c.Eq(a.Arr, b.Arr), c.Eq(a.Off, b.Off), c.Eq(a.Len, b.Len), c.Eq(a.Cap, b.Cap))}}
		}
		if strings.HasPrefix(fn.Name(), "ite") && sig.Params().Len() == 3 && isBool(sig.Params().At(0).Type()) {
			cnd := x.expr(st, e.Args[0])
			a := x.expr(st, e.Args[1])
			b := x.expr(st, e.Args[2])
			mv, ok := x.mergeVal(cnd.T, a, b)
			if !ok {
				x.fail("ite: incompatible branches")
			}
			mv.Typ = a.Typ
			return []Val{mv}
		}
		if g, ok := x.eng.ghostFuncs[fn.Name()]; ok {
			return g(x, st, e)
		}
	}

	// receiver
	var recv *Val
	if sel != nil && sig.Recv() != nil {
		rv := x.recvValue(st, e.Fun.(*ast.SelectorExpr), sel)
		recv = &rv
	}
	if m, ok := libModels[key]; ok {
		return m(x, st, e, recv)
	}
	if strings.HasPrefix(key, "loghub.Logger.") {
		return x.loggerCall(st, e, fn.Name())
	}
	if x.isSpecFunc(fn) {
		if ucon := x.eng.prog.Contracts[key]; ucon != nil {
			if err := x.eng.prog.Bind(ucon); err != nil {
				panic(err)
			}
			if ucon.Modeless != "" {
				x.assumed["spec predicate "+key+" is declared to mean the same over machine and mathematical integers: "+ucon.Modeless] = true
				return []Val{x.specApp(st, fn, e)}
			}
			if !ucon.Uninterp && !ucon.Pure && (x.inGhost > 0 || (x.noOblig == 0 && !x.specMode)) {
				// a lemma (ghost function with a contract) called from ghost code or from another
				// lemma's body: its contract is applied like that of any function
				args := x.evalArgs(st, e, sig)
				return x.callContract(st, ucon, recv, args, e)
			}
			if ucon.Uninterp {
				var ts []*Term
				for i, v := range x.evalArgs(st, e, sig) {
					ts = append(ts, x.flattenArg(st, v, sig.Params().At(i).Type())...)
				}
				rt := sig.Results().At(0).Type()
				return []Val{{Typ: rt, T: x.uninterp("uf_"+fn.Pkg().Name()+"_"+fn.Name()+"_"+x.mode, x.scalarSort(rt), ts...)}}
			}
		}
		return []Val{x.specApp(st, fn, e)}
	}
	con := x.eng.prog.Contracts[key]
	if con != nil && con.Pure && con.Decl.Body != nil && x.noOblig > 0 {
		return []Val{x.specApp(st, fn, e)}
	}
	args := x.evalArgs(st, e, sig)
	if con != nil {
		if err := x.eng.prog.Bind(con); err != nil {
			panic(err)
		}
		if con.Inline {
			return x.inlineCall(st, con.Pkg.TypesInfo, con.Decl, sig, recv, args, e)
		}
		return x.callContract(st, con, recv, args, e)
	}
	if x.specMode {
		x.fail("spec function calls %s which is neither a spec function nor pure", key)
	}
	// no contract: result unconstrained, modelled heap assumed unchanged — recorded as an assumption
	x.assumed[fmt.Sprintf("call to %s has no contract: results unconstrained, heap assumed unchanged", key)] = true
	return x.havocResults(st, sig, "ret_"+fn.Name())
}

func (x *Exec) havocResults(st *State, sig *types.Signature, name string) []Val {
	var out []Val
	for i := 0; i < sig.Results().Len(); i++ {
		t := sig.Results().At(i).Type()
		if isObjType(t) {
			r := x.allocRef(st, name)
			out = append(out, Val{Typ: t, T: r})
			continue
		}
		out = append(out, x.freshVal(st, fmt.Sprintf("%s%d", name, i), t))
	}
	return out
}

func (x *Exec) evalArgs(st *State, e *ast.CallExpr, sig *types.Signature) []Val {
	var args []Val
	np := sig.Params().Len()
	if len(e.Args) == 1 && np > 1 {
		return x.multi(st, e.Args[0], np)
	}
	for i, a := range e.Args {
		if sig.Variadic() && i >= np-1 {
			if e.Ellipsis != token.NoPos {
				args = append(args, x.expr(st, a))
			} else {
				// variadic arguments are only evaluated for their effects
				args = append(args, x.expr(st, a))
			}
			continue
		}
		args = append(args, x.exprConv(st, a, sig.Params().At(i).Type()))
	}
	return args
}

// recvValue evaluates the receiver of a method call, following embedded fields.
func (x *Exec) recvValue(st *State, se *ast.SelectorExpr, sel *types.Selection) Val {
	base := x.expr(st, se.X)
	path := sel.Index()
	cur := base
	ct := sel.Recv()
	if len(path) > 1 {
		lv := x.walkFields(st, base, ct, path[:len(path)-1], false)
		cur = x.load(st, lv)
		ct = lv.typ
	}
	cur.Typ = ct
	return cur
}

func (x *Exec) conversion(st *State, e *ast.CallExpr, to types.Type) Val {
	arg := e.Args[0]
	from := x.typeOf(arg)
	v := x.expr(st, arg)
	c := x.c
	if isString(to) || isString(from) {
		x.needStr()
	}
	switch {
	case isString(to) && isSliceT(from):
		m := x.heapGet(st, memComp(types.Typ[types.Uint8]), x.memSort(types.Typ[types.Uint8]))
		return Val{Typ: to, T: c.App("str_of", c.Select(m, v.Arr), v.Off, v.Len)}
	case isSliceT(to) && isString(from):
		arr := x.allocRef(st, "bytes")
		comp := memComp(types.Typ[types.Uint8])
		m := x.heapGet(st, comp, x.memSort(types.Typ[types.Uint8]))
		x.heapSet(st, comp, c.Store(m, arr, c.App("str_bytes", v.T)))
		n := c.App("str_len", v.T)
		return Val{Typ: to, Arr: arr, Off: x.idxLit(0), Len: n, Cap: n}
	case isString(to) && isString(from):
		return Val{Typ: to, T: v.T}
	}
	_, _, fi := intInfo(from)
	_, _, ti := intInfo(to)
	if fi && ti {
		return Val{Typ: to, T: x.convertInt(st, v.T, from, to, true)}
	}
	if isFloat(to) || isFloat(from) {
		x.abstract["floating point conversion"] = true
		return x.freshVal(st, "floatconv", to)
	}
	if v.IsSlice() {
		v.Typ = to
		return v
	}
	// pointer / named type conversions keep the representation
	if v.T != nil && x.scalarSort(to) == v.T.sort {
		return Val{Typ: to, T: v.T}
	}
	x.fail("unsupported conversion %s -> %s", from, to)
	return Val{}
}

func (x *Exec) builtin(st *State, e *ast.CallExpr, name string) []Val {
	c := x.c
	intT := types.Typ[types.Int]
	switch name {
	case "len", "cap":
		t := x.typeOf(e.Args[0])
		switch u := t.Underlying().(type) {
		case *types.Slice:
			v := x.expr(st, e.Args[0])
			if name == "len" {
				return []Val{{Typ: intT, T: v.Len}}
			}
			return []Val{{Typ: intT, T: v.Cap}}
		case *types.Basic:
			v := x.expr(st, e.Args[0])
			return []Val{{Typ: intT, T: c.App("str_len", v.T)}}
		case *types.Array:
			return []Val{{Typ: intT, T: x.idxLit(u.Len())}}
		case *types.Pointer:
			if at, ok := u.Elem().Underlying().(*types.Array); ok {
				return []Val{{Typ: intT, T: x.idxLit(at.Len())}}
			}
		case *types.Map:
			v := x.expr(st, e.Args[0])
			ks := x.scalarSort(u.Key())
			dom := c.Select(x.heapGet(st, "MD."+typeKey(t), SArr(SInt, SArr(ks, SBool))), v.T)
			fn := "maplen_" + sanitize(string(ks))
			if _, ok := c.funcs[fn]; !ok {
				c.DeclareFun(fn, []Sort{SArr(ks, SBool)}, x.idxSort())
				// a map with a key has positive length
				d := c.Bound("d", SArr(ks, SBool))
				k := c.Bound("k", ks)
				c.AddAxiom(fn, c.Forall([]*Term{d, k}, c.Implies(c.Select(d, k), x.idxLt(x.idxLit(0), c.App(fn, d))), []*Term{c.Select(d, k), c.App(fn, d)}))
			}
			n := c.App(fn, dom)
			x.assumeGlobal(st, x.idxLe(x.idxLit(0), n))
			return []Val{{Typ: intT, T: c.Ite(c.Eq(v.T, c.Int(0)), x.idxLit(0), n)}}
		case *types.Chan:
			x.abstract["len/cap of channel: unconstrained non-negative"] = true
			n := x.freshVal(st, "chanlen", intT)
			x.assumeGlobal(st, x.idxLe(x.idxLit(0), n.T))
			return []Val{n}
		}
		x.fail("len/cap of %s", t)
	case "append":
		return []Val{x.appendCall(st, e)}
	case "copy":
		dst := x.expr(st, e.Args[0])
		srcT := x.typeOf(e.Args[1])
		el := x.typeOf(e.Args[0]).Underlying().(*types.Slice).Elem()
		var srcContent, srcOff, srcLen *Term
		if isString(srcT) {
			s := x.expr(st, e.Args[1])
			srcContent, srcOff, srcLen = c.App("str_bytes", s.T), x.idxLit(0), c.App("str_len", s.T)
		} else {
			s := x.expr(st, e.Args[1])
			m := x.heapGet(st, memComp(el), x.memSort(el))
			srcContent, srcOff, srcLen = c.Select(m, s.Arr), s.Off, s.Len
		}
		n := c.Ite(x.idxLt(dst.Len, srcLen), dst.Len, srcLen)
		x.copyRange(st, dst.Arr, dst.Off, srcContent, srcOff, n, el)
		return []Val{{Typ: intT, T: n}}
	case "make":
		t := x.typeOf(e)
		switch u := t.Underlying().(type) {
		case *types.Slice:
			n := x.toIdx(st, x.expr(st, e.Args[1]))
			cp := n
			if len(e.Args) > 2 {
				cp = x.toIdx(st, x.expr(st, e.Args[2]))
			}
			x.safety(st, "make", "make: 0 <= len <= cap: "+exprString(e), c.And(x.idxLe(x.idxLit(0), n), x.idxLe(n, cp)))
			arr := x.allocRef(st, "make")
			el := u.Elem()
			if !isObjType(el) && !isSliceT(el) {
				comp := memComp(el)
				m := x.heapGet(st, comp, x.memSort(el))
				as := SArr(x.idxSort(), x.elemSort(el))
				x.heapSet(st, comp, c.Store(m, arr, c.app(fmt.Sprintf("(as const %s)", as), as, x.zeroScalar(el))))
			}
			return []Val{{Typ: t, Arr: arr, Off: x.idxLit(0), Len: n, Cap: cp}}
		case *types.Map:
			return []Val{{Typ: t, T: x.newMap(st, t, u)}}
		case *types.Chan:
			for _, a := range e.Args[1:] {
				x.expr(st, a)
			}
			return []Val{{Typ: t, T: x.allocRef(st, "chan")}}
		}
	case "new":
		t := x.typeOf(e).Underlying().(*types.Pointer).Elem()
		r := x.allocRef(st, "new")
		if isObjType(t) {
			x.zeroObject(st, r, t)
		} else {
			x.store(st, LV{kind: lvCell, ref: r, typ: t}, x.zeroValNoAlloc(t))
		}
		return []Val{{Typ: x.typeOf(e), T: r}}
	case "delete":
		m := x.expr(st, e.Args[0])
		k := x.expr(st, e.Args[1])
		x.mapDelete(st, m.T, k, typeKey(x.typeOf(e.Args[0])))
		return nil
	case "panic":
		for _, a := range e.Args {
			if _, ok := x.constVal(a); !ok {
				x.expr(st, a)
			}
		}
		x.panicPath(st, "explicit panic: "+exprString(e))
		return nil
	case "recover":
		x.abstract["recover(): result unconstrained"] = true
		return []Val{x.freshVal(st, "recovered", x.typeOf(e))}
	case "print", "println":
		return nil
	}
	x.fail("unsupported builtin %s", name)
	return nil
}

// panicPath: the current path panics.
func (x *Exec) panicPath(st *State, what string) {
	if x.con != nil && !x.con.MayPanic && !x.specMode {
		name := x.oblName("safety.panic")
		x.oblige(st, name, "safety", "unreachable: "+what, x.c.False())
	}
	st.reach = x.c.False()
}

// copyRange: content of dstArr at [dstStart, dstStart+n) becomes src[srcStart...]; rest unchanged.
func (x *Exec) copyRange(st *State, dstArr, dstStart, srcContent, srcStart, n *Term, el types.Type) {
	c := x.c
	comp := memComp(el)
	m := x.heapGet(st, comp, x.memSort(el))
	old := c.Select(m, dstArr)
	nw := c.Fresh("copied", old.sort)
	j := c.Bound("j", x.idxSort())
	inR := c.And(x.idxLe(dstStart, j), x.idxLt(j, x.idxAdd(dstStart, n)))
	body := c.Ite(inR, c.Eq(c.Select(nw, j), c.Select(srcContent, x.idxAdd(srcStart, x.idxSub(j, dstStart)))),
		c.Eq(c.Select(nw, j), c.Select(old, j)))
	x.assumeGlobal(st, c.Forall([]*Term{j}, body, []*Term{c.Select(nw, j)}))
	x.heapSet(st, comp, c.Store(m, dstArr, nw))
}

func (x *Exec) appendCall(st *State, e *ast.CallExpr) Val {
	c := x.c
	t := x.typeOf(e)
	el := t.Underlying().(*types.Slice).Elem()
	s := x.expr(st, e.Args[0])
	if !s.IsSlice() {
		s = x.zeroValNoAlloc(t)
	}
	if isObjType(el) || isSliceT(el) {
		// append of objects: new storage, contents unconstrained except the appended element
		if e.Ellipsis != token.NoPos {
			x.fail("append(s, t...) for object elements")
		}
		n := x.idxLit(int64(len(e.Args) - 1))
		arr := x.allocRef(st, "append")
		x.abstract["append on slices of objects: old elements are copied lazily (unconstrained)"] = true
		res := Val{Typ: t, Arr: arr, Off: x.idxLit(0), Len: x.idxAdd(s.Len, n), Cap: x.idxAdd(s.Len, n)}
		for i, a := range e.Args[1:] {
			v := x.expr(st, a)
			x.storeElem(st, arr, x.idxAdd(s.Len, x.idxLit(int64(i))), el, v)
		}
		return res
	}
	comp := memComp(el)
	var n *Term
	var srcContent, srcOff *Term
	var vals []Val
	if e.Ellipsis != token.NoPos {
		srcT := x.typeOf(e.Args[1])
		if isString(srcT) {
			sv := x.expr(st, e.Args[1])
			srcContent, srcOff, n = c.App("str_bytes", sv.T), x.idxLit(0), c.App("str_len", sv.T)
		} else {
			sv := x.expr(st, e.Args[1])
			m := x.heapGet(st, comp, x.memSort(el))
			srcContent, srcOff, n = c.Select(m, sv.Arr), sv.Off, sv.Len
		}
	} else {
		for _, a := range e.Args[1:] {
			vals = append(vals, x.exprConv(st, a, el))
		}
		n = x.idxLit(int64(len(vals)))
	}
	newLen := x.idxAdd(s.Len, n)
	fits := x.idxLe(newLen, s.Cap)
	// reallocation case: fresh storage holding the old content at the same offsets
	narr := x.allocRef(st, "append")
	m := x.heapGet(st, comp, x.memSort(el))
	m = c.Store(m, narr, c.Select(m, s.Arr))
	x.heapSet(st, comp, m)
	ncap := c.Fresh("appendcap", x.idxSort())
	x.assumeGlobal(st, x.idxLe(newLen, ncap))
	if x.mode == "math" {
		x.assumeGlobal(st, c.Le(ncap, c.IntBig(bigPow2(62))))
	}
	res := Val{Typ: t, Arr: c.Ite(fits, s.Arr, narr), Off: s.Off, Len: newLen, Cap: c.Ite(fits, s.Cap, ncap)}
	start := x.idxAdd(s.Off, s.Len)
	if srcContent != nil {
		x.copyRange(st, res.Arr, start, srcContent, srcOff, n, el)
	} else {
		for i, v := range vals {
			x.storeElem(st, res.Arr, x.idxAdd(start, x.idxLit(int64(i))), el, v)
		}
	}
	return res
}

// ---------- quantifiers ----------

func (x *Exec) quantifier(st *State, e *ast.CallExpr, universal bool) Val {
	c := x.c
	lo := x.toIdx(st, x.expr(st, e.Args[0]))
	hi := x.toIdx(st, x.expr(st, e.Args[1]))
	fl, ok := ast.Unparen(e.Args[2]).(*ast.FuncLit)
	if !ok {
		x.fail("forall/exists: third argument must be a function literal")
	}
	if len(fl.Body.List) != 1 {
		x.fail("forall/exists: body must be a single return statement")
	}
	ret, ok := fl.Body.List[0].(*ast.ReturnStmt)
	if !ok || len(ret.Results) != 1 {
		x.fail("forall/exists: body must be a single return statement")
	}
	pn := fl.Type.Params.List[0].Names[0]
	obj := x.info.Defs[pn]
	// small constant ranges are expanded (no quantifier reaches the solver)
	if lo.IsLit() && hi.IsLit() {
		l, h := lo.SignedVal().Int64(), hi.SignedVal().Int64()
		if h-l <= 64 {
			var parts []*Term
			for i := l; i < h; i++ {
				qs := st.clone()
				qs.vars[obj] = Val{Typ: types.Typ[types.Int], T: x.idxLit(i)}
				x.inQuant++
				parts = append(parts, x.expr(qs, ret.Results[0]).T)
				x.inQuant--
			}
			if universal {
				return Val{Typ: types.Typ[types.Bool], T: c.And(parts...)}
			}
			return Val{Typ: types.Typ[types.Bool], T: c.Or(parts...)}
		}
	}
	bv := c.Bound(pn.Name, x.idxSort())
	qs := st.clone()
	qs.vars[obj] = Val{Typ: types.Typ[types.Int], T: bv}
	x.inQuant++
	body := x.expr(qs, ret.Results[0]).T
	x.inQuant--
	rng := c.And(x.idxLe(lo, bv), x.idxLt(bv, hi))
	var t *Term
	if universal {
		t = c.Forall([]*Term{bv}, c.Implies(rng, body))
	} else {
		t = c.Exists([]*Term{bv}, c.And(rng, body))
	}
	return Val{Typ: types.Typ[types.Bool], T: t}
}

// typedQuantifier: forallXxx(func(k T) bool { return ... }) — unbounded quantification over all
// values of the scalar type T (uint64, string, pointers ...).
func (x *Exec) typedQuantifier(st *State, e *ast.CallExpr, universal bool) Val {
	c := x.c
	fl, ok := ast.Unparen(e.Args[0]).(*ast.FuncLit)
	if !ok || len(fl.Body.List) != 1 {
		x.fail("typed quantifier: argument must be a function literal with a single return statement")
	}
	ret, ok := fl.Body.List[0].(*ast.ReturnStmt)
	if !ok || len(ret.Results) != 1 {
		x.fail("typed quantifier: body must be a single return statement")
	}
	qs := st.clone()
	var bvs []*Term
	var ranges []*Term
	for _, f := range fl.Type.Params.List {
		for _, pn := range f.Names {
			obj := x.info.Defs[pn]
			t := obj.Type()
			if isSliceT(t) || isObjType(t) {
				x.fail("typed quantifier over %s not supported", t)
			}
			bv := c.Bound(pn.Name, x.scalarSort(t))
			bvs = append(bvs, bv)
			qs.vars[obj] = Val{Typ: t, T: bv}
			if x.mode == "math" {
				if _, _, isInt := intInfo(t); isInt {
					ranges = append(ranges, x.inRange(bv, t))
				}
			}
		}
	}
	x.inQuant++
	body := x.expr(qs, ret.Results[0]).T
	x.inQuant--
	var t *Term
	if universal {
		t = c.Forall(bvs, c.Implies(c.And(ranges...), body))
	} else {
		t = c.Exists(bvs, c.And(append(ranges, body)...))
	}
	return Val{Typ: types.Typ[types.Bool], T: t}
}

// ---------- contracts at call sites ----------

func (x *Exec) bindParams(st *State, sig *types.Signature, recv *Val, args []Val) {
	if sig.Recv() != nil && recv != nil {
		rv := *recv
		rv.Typ = sig.Recv().Type()
		st.vars[sig.Recv()] = rv
	}
	for i := 0; i < sig.Params().Len(); i++ {
		p := sig.Params().At(i)
		if i < len(args) {
			v := args[i]
			v.Typ = p.Type()
			st.vars[p] = v
		}
	}
}

func (x *Exec) callContract(st *State, con *Contract, recv *Val, args []Val, e *ast.CallExpr) []Val {
	c := x.c
	sig := con.Fn.Type().(*types.Signature)
	x.callCount[con.Key]++
	ord := x.callCount[con.Key]
	if recv != nil && x.noOblig == 0 {
		if _, isPtr := sig.Recv().Type().(*types.Pointer); isPtr {
			x.safety(st, "nil", "receiver of "+con.Key+" is non-nil", c.Neq(recv.T, c.Int(0)))
		}
	}
	// cross-mode call: a clause that means the same over machine and mathematical integers is used
	// as it is; a mode-dependent `ensures` is not used (less is assumed: sound); a mode-dependent
	// `requires` cannot be evaluated here, so the call site must be unreachable (obligation `false`);
	// a mode-dependent `modifies` designator cannot be located: the call is rejected.
	crossMode := con.Ints != x.mode && con.Ints != "both" && !x.specMode
	skip := map[*Clause]bool{}
	if crossMode {
		for _, cl := range con.Modifies {
			if why := x.eng.prog.clauseModeDependent(cl); why != "" {
				x.fail("call from %s (%s mode) to %s (%s mode): modifies clause is not mode-independent (%s)", x.key, x.mode, con.Key, con.Ints, why)
			}
		}
		for _, cl := range append(append([]*Clause{}, con.Requires...), con.Ensures...) {
			if why := x.eng.prog.clauseModeDependent(cl); why != "" {
				skip[cl] = true
			}
		}
	}
	// the callee's receiver, parameters and named results are bound in the caller's variable map
	// while its clauses are evaluated; for a recursive call these are the caller's own variables,
	// so whatever is bound here is put back when the call is over
	type savedVar struct {
		v  *types.Var
		ok bool
		w  Val
	}
	var saved []savedVar
	save := func(v *types.Var) {
		if v == nil {
			return
		}
		w, ok := st.vars[v]
		saved = append(saved, savedVar{v, ok, w})
	}
	save(sig.Recv())
	for i := 0; i < sig.Params().Len(); i++ {
		save(sig.Params().At(i))
	}
	for i := 0; i < sig.Results().Len(); i++ {
		save(sig.Results().At(i))
	}
	defer func() {
		for _, sv := range saved {
			if sv.ok {
				st.vars[sv.v] = sv.w
			} else {
				delete(st.vars, sv.v)
			}
		}
	}()
	x.bindParams(st, sig, recv, args)
	if x.con == con && x.noOblig == 0 {
		// recursive call: the measure must decrease and stay non-negative
		if con.Decreases == nil {
			x.fail("recursive call of %s: the contract needs a `decreases` clause", con.Key)
		}
		nv := x.evalClauseVal(st, con.Decreases)
		ov := x.evalClauseVal(x.entry.clone(), con.Decreases)
		x.oblige(st, fmt.Sprintf("%s/call.%s#%d.decreases", x.key, shortKey(con.Key), ord), "call-requires", "decreases "+con.Decreases.Text,
			x.c.And(x.idxLe(x.idxLit(0), nv), x.idxLt(nv, ov)))
	}
	// preconditions
	for _, rq := range con.Requires {
		if skip[rq] {
			if x.noOblig == 0 {
				name := fmt.Sprintf("%s/call.%s#%d.%s.crossmode", x.key, shortKey(con.Key), ord, rq.Name)
				x.oblige(st, name, "call-requires", "call site unreachable (precondition `"+rq.Text+"` of a "+con.Ints+"-mode contract cannot be stated in "+x.mode+" mode)", c.False())
				x.assume(st, c.False())
			}
			continue
		}
		for _, p := range x.clauseParts(st, rq, nil) {
			name := fmt.Sprintf("%s/call.%s#%d.%s%s", x.key, shortKey(con.Key), ord, rq.Name, p.suffix)
			x.oblige(st, name, "call-requires", rq.Text, p.t)
			x.assume(st, p.t)
		}
	}
	pre := st.clone()
	// frame: havoc what the callee may modify
	if con.ModAll {
		for name, t := range st.heap {
			if name == "ghost.brk" {
				continue
			}
			st.heap[name] = c.Fresh("call_"+name, t.sort)
		}
		x.abstract["call to "+con.Key+" (modifies *): the whole modelled heap is havocked"] = true
	} else {
		for _, mc := range con.Modifies {
			x.havocModifies(st, pre, mc)
		}
	}
	// reliable_io of the function under verification covers the functions it calls: no
	// environmental I/O failure happens during the call (the sticky failure flag is unchanged)
	if rc := x.rootOrCon(); rc != nil && rc.ReliableIO {
		if old, ok := pre.heap["ghost.iofail"]; ok {
			if st.heap["ghost.iofail"] != old {
				st.heap["ghost.iofail"] = old
				x.assumed["reliable_io: no environmental I/O failure happens inside the functions called by "+rc.Key] = true
			}
		} else if _, ok := st.heap["ghost.iofail"]; ok {
			delete(st.heap, "ghost.iofail")
			x.assumed["reliable_io: no environmental I/O failure happens inside the functions called by "+rc.Key] = true
		}
	}
	// the callee may allocate: allocation grows monotonically
	{
		brk := x.heapGet(st, "ghost.brk", SInt)
		nb := c.Fresh("call_brk", SInt)
		x.assumeGlobal(st, c.Ge(nb, brk))
		st.heap["ghost.brk"] = nb
	}
	// results
	var results []Val
	ph := map[string]Val{}
	for i := 0; i < sig.Results().Len(); i++ {
		r := sig.Results().At(i)
		var v Val
		if isSliceT(r.Type()) && con.freshResult(i, r) {
			v = x.freshVal(st, fmt.Sprintf("%s_res%d", con.Fn.Name(), i), r.Type())
			v.Arr = x.allocRef(st, "res")
		} else if isObjType(r.Type()) || con.freshResult(i, r) {
			v = Val{Typ: r.Type(), T: x.allocRef(st, "res")}
			// the callee filled the object: its fields are unconstrained values of the post-state
			// (not entry-heap values), described only by the callee's postconditions
			ot := r.Type()
			if p, ok := ot.Underlying().(*types.Pointer); ok {
				ot = p.Elem()
			}
			if isObjType(ot) {
				for _, loc := range x.objLocs(v.T, ot) {
					if !loc.whole && !loc.isElems {
						x.havocLoc(st, loc)
					}
				}
			}
		} else {
			v = x.freshVal(st, fmt.Sprintf("%s_res%d", con.Fn.Name(), i), r.Type())
		}
		results = append(results, v)
		if r.Name() != "" && r.Name() != "_" {
			st.vars[r] = v
		} else {
			ph[fmt.Sprintf("result%d", i)] = v
		}
	}
	// postconditions
	savedOld, savedPH := x.old, x.placehold
	x.old = pre
	x.placehold = ph
	for _, en := range con.Ensures {
		if skip[en] {
			x.abstract["cross-mode call to "+con.Key+": mode-dependent postcondition "+en.Name+" not used"] = true
			continue
		}
		t := x.evalClause(st, en, nil)
		x.assume(st, t)
	}
	x.old, x.placehold = savedOld, savedPH
	if con.Assumed != "" {
		x.assumed["contract of "+con.Key+" is assumed: "+con.Assumed] = true
	}
	return results
}

func shortKey(k string) string {
	if i := strings.Index(k, "."); i >= 0 {
		return k[i+1:]
	}
	return k
}

// havocModifies: evaluate a modifies designator in the pre-state and havoc that location in st.
func (x *Exec) havocModifies(st, pre *State, mc *Clause) {
	savedInfo, savedClause := x.info, x.curClause
	x.info, x.curClause = mc.Info, mc
	x.noOblig++
	defer func() { x.noOblig--; x.info, x.curClause = savedInfo, savedClause }()
	for _, loc := range x.modLocations(pre, mc.Expr) {
		x.havocLoc(st, loc)
	}
}

// modLoc: a set of heap locations.
type modLoc struct {
	comp    string
	sort    Sort
	ref     *Term // field/cell: index; elements: storage ref
	whole   bool  // the whole component (globals)
	isElems bool
	key     *Term // one entry of a two-level component (map entry): the inner index
}

func (x *Exec) modLocations(pre *State, e ast.Expr) []modLoc {
	e = ast.Unparen(e)
	if call, ok := e.(*ast.CallExpr); ok {
		if id, ok := call.Fun.(*ast.Ident); ok {
			switch id.Name {
			case "all":
				v := x.expr(pre, call.Args[0])
				t := x.typeOf(call.Args[0])
				if p, ok := t.Underlying().(*types.Pointer); ok {
					t = p.Elem()
				}
				return x.objLocs(v.T, t)
			case "fieldof":
				// fieldof(x.f): the scalar field f of every object of x's struct type (coarse; used
				// where the written objects are elements of nested slices that no designator names)
				if sel, ok := ast.Unparen(call.Args[0]).(*ast.SelectorExpr); ok {
					t := x.typeOf(sel.X)
					if p, ok := t.Underlying().(*types.Pointer); ok {
						t = p.Elem()
					}
					if st, ok := t.Underlying().(*types.Struct); ok {
						for i := 0; i < st.NumFields(); i++ {
							f := st.Field(i)
							if f.Name() == sel.Sel.Name && !isObjType(f.Type()) && !isSliceT(f.Type()) {
								return []modLoc{{comp: fieldComp(typeKey(t), f.Name()), sort: SArr(SInt, x.scalarSort(f.Type())), whole: true}}
							}
						}
					}
				}
				x.fail("fieldof(%s): not a scalar struct field", exprString(call.Args[0]))
			case "ghostIO":
				var out []modLoc
				for _, g := range ghostIOComps {
					out = append(out, modLoc{comp: g.name, sort: g.sort(x), whole: true})
				}
				return out
			case "ghostFail":
				return []modLoc{{comp: "ghost.iofail", sort: SBool, whole: true}}
			case "ghostHandles":
				// file and reader handles (identity, positions) — not file contents or sizes
				var out []modLoc
				for _, g := range ghostIOComps {
					switch g.name {
					case "ghost.fid", "ghost.fpos", "ghost.rfile", "ghost.rpos", "ghost.fisize":
						out = append(out, modLoc{comp: g.name, sort: g.sort(x), whole: true})
					}
				}
				return out
			case "ghostSpawn":
				return []modLoc{{comp: "ghost.spawned", sort: SInt, whole: true}}
			case "ghostClock":
				return []modLoc{{comp: "ghost.now", sort: SInt, whole: true}}
			case "ghostStream":
				v := x.expr(pre, call.Args[0])
				return []modLoc{{comp: "ghost.wdata", sort: SArr(SInt, SArr(x.idxSort(), x.byteSort())), ref: v.T}, {comp: "ghost.wlen", sort: SArr(SInt, x.idxSort()), ref: v.T}, {comp: "ghost.wflushed", sort: SArr(SInt, x.idxSort()), ref: v.T}}
			case "ghostReader":
				v := x.expr(pre, call.Args[0])
				return []modLoc{{comp: "ghost.rpos", sort: SArr(SInt, x.idxSort()), ref: v.T}, {comp: "ghost.rfile", sort: SArr(SInt, SInt), ref: v.T}, {comp: "ghost.rended", sort: SArr(SInt, SBool), ref: v.T}}
			case "ghostFilePos":
				v := x.expr(pre, call.Args[0])
				return []modLoc{{comp: "ghost.fpos", sort: SArr(SInt, x.idxSort()), ref: v.T}}
			case "elems":
				v := x.expr(pre, call.Args[0])
				t := x.typeOf(call.Args[0])
				switch u := t.Underlying().(type) {
				case *types.Slice:
					return x.elemLocs(v.Arr, u.Elem())
				case *types.Array:
					return x.elemLocs(v.T, u.Elem())
				case *types.Map:
					ks := x.scalarSort(u.Key())
					var vs Sort = SInt
					if !isObjType(u.Elem()) {
						vs = x.scalarSort(u.Elem())
					}
					return []modLoc{{comp: "MD." + typeKey(t), sort: SArr(SInt, SArr(ks, SBool)), ref: v.T}, {comp: "MV." + typeKey(t), sort: SArr(SInt, SArr(ks, vs)), ref: v.T}}
				}
				x.fail("elems(%s): not a slice, array or map", exprString(call.Args[0]))
			}
		}
	}
	lv := x.lvalue(pre, e)
	switch lv.kind {
	case lvField:
		return x.leafLocs(fieldComp(lv.structKey, lv.field), lv.typ, lv.ref, false)
	case lvCell:
		return x.leafLocs(x.cellComp(lv.typ), lv.typ, lv.ref, false)
	case lvObj:
		return x.objLocs(lv.ref, lv.typ)
	case lvGlobal:
		return x.leafLocs(globalComp(lv.obj), lv.typ, nil, true)
	case lvElem:
		return []modLoc{{comp: memComp(lv.typ), sort: x.memSort(lv.typ), ref: lv.arr, isElems: true}}
	case lvMap:
		// one entry of a map with scalar values: domain bit and value at (map, key)
		if !isObjType(lv.typ) && !isSliceT(lv.typ) {
			ks := lv.key.T.sort
			vs := x.scalarSort(lv.typ)
			return []modLoc{{comp: "MD." + lv.structKey, sort: SArr(SInt, SArr(ks, SBool)), ref: lv.mapRef, key: lv.key.T},
				{comp: "MV." + lv.structKey, sort: SArr(SInt, SArr(ks, vs)), ref: lv.mapRef, key: lv.key.T}}
		}
	}
	x.fail("unsupported modifies designator %s", exprString(e))
	return nil
}

func (x *Exec) leafLocs(base string, t types.Type, ref *Term, global bool) []modLoc {
	mk := func(name string, s Sort) modLoc {
		if global {
			return modLoc{comp: name, sort: s, whole: true}
		}
		return modLoc{comp: name, sort: SArr(SInt, s), ref: ref}
	}
	if isSliceT(t) {
		is := x.idxSort()
		return []modLoc{mk(base+"#arr", SInt), mk(base+"#off", is), mk(base+"#len", is), mk(base+"#cap", is)}
	}
	return []modLoc{mk(base, x.scalarSort(t))}
}

func (x *Exec) objLocs(r *Term, t types.Type) []modLoc {
	var out []modLoc
	switch u := t.Underlying().(type) {
	case *types.Struct:
		sk := typeKey(t)
		for i := 0; i < u.NumFields(); i++ {
			f := u.Field(i)
			if isObjType(f.Type()) {
				out = append(out, x.objLocs(x.embRef(r, sk, f.Name()), f.Type())...)
			} else {
				out = append(out, x.leafLocs(fieldComp(sk, f.Name()), f.Type(), r, false)...)
			}
		}
	case *types.Array:
		out = append(out, x.elemLocs(r, u.Elem())...)
	}
	return out
}

func (x *Exec) elemLocs(arr *Term, el types.Type) []modLoc {
	if isObjType(el) {
		// object elements: the field components of the element type are named wholesale (coarse:
		// callers lose what they knew about those fields of every object of the type)
		ms := &modSet{vars: map[types.Object]bool{}, comps: map[string]Sort{}, imprecise: map[string]bool{}}
		x.markObjComps(ms, el)
		var out []modLoc
		for name, srt := range ms.comps {
			out = append(out, modLoc{comp: name, sort: srt, whole: true})
		}
		return out
	}
	if isSliceT(el) {
		base := "M." + typeKey(el)
		is := x.idxSort()
		return []modLoc{
			{comp: base + "#arr", sort: SArr(SInt, SArr(is, SInt)), ref: arr, isElems: true},
			{comp: base + "#off", sort: SArr(SInt, SArr(is, is)), ref: arr, isElems: true},
			{comp: base + "#len", sort: SArr(SInt, SArr(is, is)), ref: arr, isElems: true},
			{comp: base + "#cap", sort: SArr(SInt, SArr(is, is)), ref: arr, isElems: true}}
	}
	return []modLoc{{comp: memComp(el), sort: x.memSort(el), ref: arr, isElems: true}}
}

func (x *Exec) havocLoc(st *State, loc modLoc) {
	c := x.c
	cur := x.heapGet(st, loc.comp, loc.sort)
	if loc.whole {
		if loc.comp == "ghost.iofail" {
			// the failure flag is sticky: a callee can only set it
			x.heapSet(st, loc.comp, c.Or(cur, c.Fresh("hv_iofail", SBool)))
			return
		}
		x.heapSet(st, loc.comp, c.Fresh("hv_"+loc.comp, loc.sort))
		return
	}
	_, es := loc.sort.ArrayParts()
	if loc.key != nil {
		_, vs := es.ArrayParts()
		inner := c.Select(cur, loc.ref)
		x.heapSet(st, loc.comp, c.Store(cur, loc.ref, c.Store(inner, loc.key, c.Fresh("hv_"+loc.comp, vs))))
		return
	}
	x.heapSet(st, loc.comp, c.Store(cur, loc.ref, c.Fresh("hv_"+loc.comp, es)))
}

// ---------- inlining ----------

func (x *Exec) inlineCall(st *State, info *types.Info, decl *ast.FuncDecl, sig *types.Signature, recv *Val, args []Val, e *ast.CallExpr) []Val {
	if decl.Body == nil {
		x.fail("inline of function without body")
	}
	if x.inlineDepth > 8 {
		x.fail("inlining too deep (recursion?) at %s", decl.Name.Name)
	}
	return x.inlineBody(st, info, decl.Type, decl.Body, sig, recv, args)
}

func (x *Exec) inlineBody(st *State, info *types.Info, ft *ast.FuncType, body *ast.BlockStmt, sig *types.Signature, recv *Val, args []Val) []Val {
	savedInfo := x.info
	x.info = info
	x.inlineDepth++
	// parameters are fresh variables of the callee
	if sig.Recv() != nil && recv != nil {
		rv := *recv
		if isObjType(sig.Recv().Type()) {
			// value receiver: operate on a copy
			x.declare(st, sig.Recv(), rv)
		} else {
			rv.Typ = sig.Recv().Type()
			st.vars[sig.Recv()] = rv
		}
	}
	for i := 0; i < sig.Params().Len(); i++ {
		p := sig.Params().At(i)
		if sig.Variadic() && i == sig.Params().Len()-1 {
			// variadic: not modelled (loggers); bind an unconstrained slice
			st.vars[p] = x.freshVal(st, "variadic", p.Type())
			continue
		}
		x.declare(st, p, args[i])
	}
	frame := &inlineFrame{sig: sig}
	for i := 0; i < sig.Results().Len(); i++ {
		r := sig.Results().At(i)
		if r.Name() != "" && r.Name() != "_" {
			if isObjType(r.Type()) {
				x.declare(st, r, Val{})
			} else {
				x.declare(st, r, x.zeroValNoAlloc(r.Type()))
			}
			frame.results = append(frame.results, r)
		} else {
			frame.results = append(frame.results, nil)
		}
	}
	x.retTarget = append(x.retTarget, frame)
	savedLoops := x.loops
	x.loops = nil
	savedDefers := st.defers
	st.defers = nil
	end := x.block(st, body.List)
	x.loops = savedLoops
	if !x.dead(end) {
		// fall off the end: results are the named results (or none)
		var res []Val
		for i := 0; i < sig.Results().Len(); i++ {
			if frame.results[i] == nil {
				x.fail("inline: missing return")
			}
			res = append(res, x.load(end, x.varLV(end, frame.results[i])))
		}
		end.results = res
		frame.returns = append(frame.returns, end)
	}
	// deferred calls of the inlined function run at each of its returns
	for _, r := range frame.returns {
		x.runDefers(r)
	}
	x.retTarget = x.retTarget[:len(x.retTarget)-1]
	merged := x.mergeN(frame.returns)
	x.inlineDepth--
	x.info = savedInfo
	if merged == nil {
		st.reach = x.c.False()
		return x.zeroResults(st, sig)
	}
	// continue in the caller's state object
	res := merged.results
	*st = *merged
	st.defers = savedDefers
	st.results = nil
	return res
}

func (x *Exec) zeroResults(st *State, sig *types.Signature) []Val {
	var out []Val
	for i := 0; i < sig.Results().Len(); i++ {
		t := sig.Results().At(i).Type()
		if isObjType(t) {
			out = append(out, Val{Typ: t, T: x.c.Int(embN)})
		} else {
			out = append(out, x.zeroValNoAlloc(t))
		}
	}
	return out
}

// runDefers executes the deferred calls registered in st (LIFO).
func (x *Exec) runDefers(st *State) {
	ds := st.defers
	st.defers = nil
	for i := len(ds) - 1; i >= 0; i-- {
		if x.dead(st) {
			return
		}
		d := ds[i]
		savedInfo := x.info
		x.info = d.info
		saveRes := st.results
		if fl, ok := ast.Unparen(d.call.Fun).(*ast.FuncLit); ok {
			sig := x.typeOf(fl).(*types.Signature)
			var args []Val
			for _, a := range d.call.Args {
				args = append(args, x.expr(st, a))
			}
			x.inlineBody(st, d.info, fl.Type, fl.Body, sig, nil, args)
		} else {
			savedFrozen := x.frozen
			x.frozen = d.frozen
			x.call(st, d.call)
			x.frozen = savedFrozen
		}
		// named results may have been changed by the closure
		st.results = x.reloadResults(st, saveRes)
		x.info = savedInfo
	}
}

func (x *Exec) reloadResults(st *State, res []Val) []Val {
	robjs := x.resultObjs
	if len(x.retTarget) > 0 {
		robjs = x.retTarget[len(x.retTarget)-1].results
	}
	if robjs == nil {
		return res
	}
	out := append([]Val{}, res...)
	for i, rv := range robjs {
		if rv != nil && i < len(out) {
			if _, ok := st.vars[rv]; ok {
				out[i] = x.load(st, x.varLV(st, rv))
			}
		}
	}
	return out
}

// callFuncValue: call through a function value (closure variable, parameter, package variable).
func (x *Exec) callFuncValue(st *State, e *ast.CallExpr, sel *types.Selection) []Val {
	ft := x.typeOf(e.Fun)
	sig, ok := ft.Underlying().(*types.Signature)
	if !ok {
		x.fail("call of non-function %s", exprString(e.Fun))
	}
	// immediate function literal
	if fl, ok := ast.Unparen(e.Fun).(*ast.FuncLit); ok {
		args := x.evalArgs(st, e, sig)
		return x.inlineBody(st, x.info, fl.Type, fl.Body, sig, nil, args)
	}
	fv := x.expr(st, e.Fun)
	args := x.evalArgs(st, e, sig)
	if fv.Fn != nil {
		return x.inlineBody(st, x.info, fv.Fn.Type, fv.Fn.Body, sig, nil, args)
	}
	if fv.FnObj != nil {
		key := fnKey(fv.FnObj)
		if con := x.eng.prog.Contracts[key]; con != nil {
			if err := x.eng.prog.Bind(con); err != nil {
				panic(err)
			}
			return x.callContract(st, con, nil, args, e)
		}
	}
	// package-level function variable (e.g. getKeyHash): deterministic uninterpreted function
	if id, ok := ast.Unparen(e.Fun).(*ast.Ident); ok {
		if v, ok := x.info.Uses[id].(*types.Var); ok && isPkgLevel(v) && sig.Results().Len() == 1 && !isSliceT(sig.Results().At(0).Type()) {
			var ts []*Term
			for i, a := range args {
				if a.IsSlice() {
					el := sig.Params().At(i).Type().Underlying().(*types.Slice).Elem()
					m := x.heapGet(st, memComp(el), x.memSort(el))
					ts = append(ts, x.c.Select(m, a.Arr), a.Off, a.Len)
				} else {
					ts = append(ts, a.T)
				}
			}
			x.abstract["function variable "+v.Name()+": deterministic uninterpreted function"] = true
			rt := sig.Results().At(0).Type()
			r := x.uninterp("fnvar_"+v.Pkg().Name()+"_"+v.Name()+"_"+x.mode, x.scalarSort(rt), ts...)
			return []Val{{Typ: rt, T: r}}
		}
	}
	x.assumed["call through function value "+exprString(e.Fun)+": results unconstrained, heap assumed unchanged"] = true
	return x.havocResults(st, sig, "fv")
}

func (x *Exec) loggerCall(st *State, e *ast.CallExpr, name string) []Val {
	for _, a := range e.Args {
		// arguments are evaluated (they may contain calls) but only for safety
		if _, ok := x.constVal(a); ok {
			continue
		}
		saved := x.noOblig
		x.noOblig++ // formatting arguments: no safety obligations (e.g. err.Error() on nil is not modelled)
		func() {
			defer func() {
				if r := recover(); r != nil {
					if _, ok := r.(*Abort); !ok {
						panic(r)
					}
				}
			}()
			x.expr(st, a)
		}()
		x.noOblig = saved
	}
	if name == "Fatalf" {
		// the default error hub exits the process
		x.abstract["logger.Fatalf ends the process (default ErrorLogHub)"] = true
		st.reach = x.c.False()
	}
	return nil
}

func (x *Exec) scanCallMods(ms *modSet, e *ast.CallExpr) {
	// ghost statements anchored after this call run right behind it: what their lemmas modify
	// (ghost state) belongs to the loop's modification set too
	if x.con != nil && len(x.con.Ghosts) > 0 && !x.scanningGhost {
		name := calleeName(e)
		for _, g := range x.con.Ghosts {
			if g.Anchor == "after" && g.Callee == name {
				saved := x.info
				x.info = g.Clause.Info
				x.scanningGhost = true
				ast.Inspect(g.Clause.Expr, func(n ast.Node) bool {
					if ce, ok := n.(*ast.CallExpr); ok {
						x.scanCallMods(ms, ce)
					}
					return true
				})
				x.scanningGhost = false
				x.info = saved
			}
		}
	}
	if tv, ok := x.info.Types[e.Fun]; ok && tv.IsType() {
		if isSliceT(tv.Type) {
			ms.add("ghost.brk", SInt)
			x.markElemComps(ms, tv.Type.Underlying().(*types.Slice).Elem())
		}
		return
	}
	if id, ok := ast.Unparen(e.Fun).(*ast.Ident); ok {
		if b, ok := x.info.Uses[id].(*types.Builtin); ok {
			switch b.Name() {
			case "append", "make":
				ms.add("ghost.brk", SInt)
				if s, ok := x.typeOf(e).Underlying().(*types.Slice); ok {
					x.markElemComps(ms, s.Elem())
				}
				if m, ok := x.typeOf(e).Underlying().(*types.Map); ok {
					x.markMapComps(ms, x.typeOf(e), m)
				}
			case "copy":
				if s, ok := x.typeOf(e.Args[0]).Underlying().(*types.Slice); ok {
					x.markElemComps(ms, s.Elem())
				}
			case "new":
				ms.add("ghost.brk", SInt)
				x.markObjCompsIfObj(ms, x.typeOf(e).Underlying().(*types.Pointer).Elem())
			case "delete":
				t := x.typeOf(e.Args[0])
				x.markMapComps(ms, t, t.Underlying().(*types.Map))
			}
			return
		}
	}
	fn, _ := x.calleeFunc(e)
	if fn == nil {
		if fl, ok := ast.Unparen(e.Fun).(*ast.FuncLit); ok {
			sub := x.scanMods(fl.Body)
			ms.merge(sub)
		}
		return
	}
	key := fnKey(fn)
	if f, ok := libMods[key]; ok {
		f(x, ms, e)
		return
	}
	if con := x.eng.prog.Contracts[key]; con != nil {
		if err := x.eng.prog.Bind(con); err != nil {
			panic(err)
		}
		if con.Inline && con.Decl.Body != nil {
			saved := x.info
			x.info = con.Pkg.TypesInfo
			sub := x.scanMods(con.Decl.Body)
			x.info = saved
			// the callee's locals are irrelevant
			sub.vars = map[types.Object]bool{}
			ms.merge(sub)
			return
		}
		if con.ModAll {
			ms.all = true
			return
		}
		ms.add("ghost.brk", SInt)
		// result objects are filled by the callee (their fields get post-state values at the call)
		if rsig, ok := con.Fn.Type().(*types.Signature); ok {
			for i := 0; i < rsig.Results().Len(); i++ {
				r := rsig.Results().At(i)
				rt := r.Type()
				if isObjType(rt) {
					x.markObjComps(ms, rt)
				} else if p, ok := rt.Underlying().(*types.Pointer); ok && con.freshResult(i, r) && isObjType(p.Elem()) {
					x.markObjComps(ms, p.Elem())
				}
			}
		}
		for _, mc := range con.Modifies {
			if x.globalOnlyClause(mc) {
				// precise: the designator denotes the same locations at the loop head
				before := map[string]bool{}
				for k := range ms.imprecise {
					before[k] = true
				}
				sub := &modSet{vars: map[types.Object]bool{}, comps: map[string]Sort{}, imprecise: map[string]bool{}, info: x.info}
				x.scanModClause(sub, mc)
				var names []string
				for k, srt := range sub.comps {
					ms.comps[k] = srt
					names = append(names, k)
				}
				ms.writes = append(ms.writes, lvWrite{comps: names, clause: mc, info: mc.Info})
				continue
			}
			x.scanModClause(ms, mc)
		}
	}
}

// globalOnlyClause: the designator mentions no parameter or local (only package-level names).
func (x *Exec) globalOnlyClause(mc *Clause) bool {
	ok := true
	ast.Inspect(mc.Expr, func(n ast.Node) bool {
		id, isId := n.(*ast.Ident)
		if !isId {
			return true
		}
		obj := mc.Info.Uses[id]
		switch o := obj.(type) {
		case *types.Var:
			if o.IsField() {
				return true
			}
			if !isPkgLevel(o) {
				ok = false
			}
		case nil:
			// field selectors have no Uses entry in some positions
		}
		return true
	})
	if call, isCall := ast.Unparen(mc.Expr).(*ast.CallExpr); isCall {
		if id, isId := call.Fun.(*ast.Ident); isId && (id.Name == "ghostFail" || id.Name == "ghostSpawn" || id.Name == "ghostClock" || id.Name == "ghostIO" || id.Name == "ghostHandles") {
			return false // whole-component designators stay as they are
		}
	}
	return ok
}

// scanModClause: components named by a modifies designator (by type only).
func (x *Exec) scanModClause(ms *modSet, mc *Clause) {
	saved := x.info
	x.info = mc.Info
	defer func() { x.info = saved }()
	e := ast.Unparen(mc.Expr)
	if call, ok := e.(*ast.CallExpr); ok {
		if id, ok := call.Fun.(*ast.Ident); ok {
			switch id.Name {
			case "ghostIO":
				for _, g := range ghostIOComps {
					ms.add(g.name, g.sort(x))
				}
				return
			case "ghostFail":
				ms.add("ghost.iofail", SBool)
				return
			case "ghostHandles":
				for _, g := range ghostIOComps {
					switch g.name {
					case "ghost.fid", "ghost.fpos", "ghost.rfile", "ghost.rpos", "ghost.fisize":
						ms.add(g.name, g.sort(x))
					}
				}
				return
			case "ghostSpawn":
				ms.add("ghost.spawned", SInt)
				return
			case "ghostClock":
				ms.add("ghost.now", SInt)
				return
			case "ghostStream":
				ms.add("ghost.wdata", SArr(SInt, SArr(x.idxSort(), x.byteSort())))
				ms.add("ghost.wlen", SArr(SInt, x.idxSort()))
				ms.add("ghost.wflushed", SArr(SInt, x.idxSort()))
				return
			case "ghostReader":
				ms.add("ghost.rpos", SArr(SInt, x.idxSort()))
				ms.add("ghost.rfile", SArr(SInt, SInt))
				ms.add("ghost.rended", SArr(SInt, SBool))
				return
			case "ghostFilePos":
				ms.add("ghost.fpos", SArr(SInt, x.idxSort()))
				return
			}
			if id.Name == "fieldof" {
				sub := x.scanMods(&ast.AssignStmt{Lhs: []ast.Expr{call.Args[0]}, Tok: token.ASSIGN, Rhs: []ast.Expr{call.Args[0]}})
				sub.vars = map[types.Object]bool{}
				for k := range sub.comps {
					sub.imprecise[k] = true
				}
				ms.merge(sub)
				return
			}
			t := x.typeOf(call.Args[0])
			switch id.Name {
			case "all":
				if p, ok := t.Underlying().(*types.Pointer); ok {
					t = p.Elem()
				}
				x.markObjComps(ms, t)
				return
			case "elems":
				switch u := t.Underlying().(type) {
				case *types.Slice:
					x.markElemComps(ms, u.Elem())
				case *types.Array:
					x.markElemComps(ms, u.Elem())
				case *types.Map:
					x.markMapComps(ms, t, u)
				}
				return
			}
		}
	}
	// reuse the assignment scanner on a synthetic assignment
	sub := x.scanMods(&ast.AssignStmt{Lhs: []ast.Expr{e}, Tok: token.ASSIGN, Rhs: []ast.Expr{e}})
	sub.vars = map[types.Object]bool{}
	ms.merge(sub)
}

// modeDependent: a contract may be used from a caller in the other integer mode only if its clauses
// mean the same over machine integers and over mathematical integers: no arithmetic, bit operation,
// shift, negation or integer conversion anywhere in the clauses or in the spec functions they call.
func (p *Program) modeDependent(con *Contract) string {
	var all []*Clause
	all = append(all, con.Requires...)
	all = append(all, con.Ensures...)
	all = append(all, con.Modifies...)
	for _, cl := range all {
		if w := p.clauseModeDependent(cl); w != "" {
			return cl.Name + ": " + w
		}
	}
	return ""
}

func (p *Program) clauseModeDependent(cl *Clause) string {
	p.modeDepMu.Lock()
	defer p.modeDepMu.Unlock()
	if p.modeDepCache == nil {
		p.modeDepCache = map[*Clause]string{}
	}
	if w, ok := p.modeDepCache[cl]; ok {
		return w
	}
	w := p.clauseModeDependent1(cl)
	p.modeDepCache[cl] = w
	return w
}

func (p *Program) clauseModeDependent1(cl *Clause) string {
	seen := map[string]bool{}
	var checkNode func(n ast.Node, info *types.Info) string
	checkNode = func(n ast.Node, info *types.Info) string {
		why := ""
		ast.Inspect(n, func(n ast.Node) bool {
			if why != "" {
				return false
			}
			switch e := n.(type) {
			case *ast.BinaryExpr:
				switch e.Op {
				case token.ADD, token.SUB, token.MUL, token.QUO, token.REM, token.AND, token.OR, token.XOR, token.SHL, token.SHR, token.AND_NOT:
					if tv, ok := info.Types[e]; ok && tv.Value != nil {
						return false // constant expression
					}
					if e.Op == token.QUO || e.Op == token.REM {
						// division/remainder by a positive constant cannot overflow: same meaning in both modes
						if tv, ok := info.Types[e.Y]; ok && tv.Value != nil && constant.Sign(tv.Value) > 0 {
							return true
						}
					}
					if tv, ok := info.Types[e]; ok && isString(tv.Type) {
						return true
					}
					why = "operator " + e.Op.String() + " in " + types.ExprString(e)
				}
			case *ast.UnaryExpr:
				if e.Op == token.SUB || e.Op == token.XOR {
					if tv, ok := info.Types[e]; ok && tv.Value != nil {
						return false
					}
					why = "operator " + e.Op.String()
				}
			case *ast.IncDecStmt:
				why = "increment"
			case *ast.AssignStmt:
				if e.Tok != token.ASSIGN && e.Tok != token.DEFINE {
					why = "operator " + e.Tok.String()
				}
			case *ast.CallExpr:
				if tv, ok := info.Types[e.Fun]; ok && tv.IsType() {
					if _, _, isInt := intInfo(tv.Type); isInt {
						if atv, ok := info.Types[e.Args[0]]; ok && atv.Value == nil && !wideningConv(atv.Type, tv.Type) {
							why = "integer conversion " + types.ExprString(e)
						}
					}
					return true
				}
				var fn *types.Func
				switch f := ast.Unparen(e.Fun).(type) {
				case *ast.Ident:
					fn, _ = info.Uses[f].(*types.Func)
				case *ast.SelectorExpr:
					fn, _ = info.Uses[f.Sel].(*types.Func)
				}
				if fn != nil && fn.Pkg() != nil {
					key := fnKey(fn)
					if seen[key] {
						return true
					}
					seen[key] = true
					switch fn.Name() {
					case "forall", "exists", "all", "elems", "fieldof":
						return true
					}
					if sc := p.Contracts[key]; sc != nil {
						if _, ok := sc.rawDirective("modeless"); ok {
							return true // declared to mean the same in both integer modes (listed as an assumption)
						}
					}
					if d := p.Decls[key]; d != nil && d.Body != nil {
						pos := p.Fset.Position(fn.Pos())
						if isContractFile(pos.Filename) {
							if w := checkNode(d.Body, p.DeclPkg[key].TypesInfo); w != "" {
								why = "spec function " + fn.Name() + ": " + w
							}
						}
					}
				}
			}
			return true
		})
		return why
	}
	return checkNode(cl.Expr, cl.Info)
}

// freshResult: does some ensures clause have the top-level conjunct fresh(<result i>)?
func (con *Contract) freshResult(i int, r *types.Var) bool {
	want := fmt.Sprintf("result%d", i)
	if r.Name() != "" && r.Name() != "_" {
		want = r.Name()
	}
	for _, en := range con.Ensures {
		var conj func(e ast.Expr) bool
		conj = func(e ast.Expr) bool {
			e = ast.Unparen(e)
			if b, ok := e.(*ast.BinaryExpr); ok && b.Op == token.LAND {
				return conj(b.X) || conj(b.Y)
			}
			if call, ok := e.(*ast.CallExpr); ok {
				if id, ok := call.Fun.(*ast.Ident); ok && id.Name == "fresh" && len(call.Args) == 1 {
					if a, ok := ast.Unparen(call.Args[0]).(*ast.Ident); ok && a.Name == want {
						return true
					}
				}
			}
			return false
		}
		if conj(en.Expr) {
			return true
		}
	}
	return false
}

func (x *Exec) evalClauseVal(st *State, cl *Clause) *Term {
	savedInfo, savedClause := x.info, x.curClause
	x.info, x.curClause = cl.Info, cl
	x.noOblig++
	v := x.expr(st, cl.Expr)
	x.noOblig--
	x.info, x.curClause = savedInfo, savedClause
	return x.toIdx(st, v)
}

// wideningConv: every value of the source integer type is a value of the target type (the
// conversion is the identity on values in both integer modes).
func wideningConv(from, to types.Type) bool {
	fb, fs, ok1 := intInfo(from)
	tb, ts, ok2 := intInfo(to)
	if !ok1 || !ok2 {
		return false
	}
	if fs == ts {
		return tb >= fb
	}
	return !fs && ts && tb > fb
}
