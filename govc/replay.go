package main

// Replay of failed obligations against the real code.

import (
	"encoding/json"
	"fmt"
	"os"
	"path/filepath"
)

type ReplayFile struct {
	Property    string            `json:"property"`
	Obligation  string            `json:"obligation"`
	Function    string            `json:"function"`
	Kind        string            `json:"kind"`
	Clause      string            `json:"clause"`
	Position    string            `json:"position"`
	Status      string            `json:"solver_status"`
	Backend     string            `json:"backend"`
	SolverOut   string            `json:"solver_output"`
	ModelValues map[string]string `json:"model_values,omitempty"`
	Replay      string            `json:"replay"` // confirmed | not-reproduced | not-replayable
	ReplayNote  string            `json:"replay_note,omitempty"`
	TestSource  string            `json:"test_source,omitempty"`
	TestOutput  string            `json:"test_output,omitempty"`
}

func writeReplay(p *Program, prop string, o *Obligation, frs []*FuncResult) string {
	rf := ReplayFile{Property: prop, Obligation: o.Name, Function: o.Func, Kind: o.Kind, Clause: o.Text, Position: o.Pos.String(),
		Status: o.Status, Backend: o.Backend, SolverOut: truncate(o.Model, 20000), Replay: "not-replayable"}
	if o.Status == "sat" {
		rf.ModelValues = parseModelValues(o)
	}
	tryReplay(p, o, &rf, frs)
	if rf.Replay == "confirmed" {
		o.replayConfirmed = true
	}
	path := filepath.Join(outDir(), "replays", prop, sanitize(o.Name)+".json")
	data, _ := json.MarshalIndent(rf, "", " ")
	os.WriteFile(path, data, 0o644)
	return path
}

func truncate(s string, n int) string {
	if len(s) > n {
		return s[:n] + "...(truncated)"
	}
	return s
}

func cmdReplay(args []string) int {
	if len(args) < 1 {
		fmt.Fprintln(os.Stderr, "usage: govc replay <file>")
		return 2
	}
	data, err := os.ReadFile(args[0])
	if err != nil {
		fmt.Fprintln(os.Stderr, err)
		return 2
	}
	var rf ReplayFile
	if err := json.Unmarshal(data, &rf); err != nil {
		fmt.Fprintln(os.Stderr, err)
		return 2
	}
	fmt.Printf("obligation: %s\nclause: %s\nat: %s\nsolver: %s (%s)\nreplay: %s %s\n", rf.Obligation, rf.Clause, rf.Position, rf.Status, rf.Backend, rf.Replay, rf.ReplayNote)
	if rf.TestSource != "" {
		out, ok := runReplayTest(rf.Function, rf.TestSource)
		fmt.Println(out)
		if ok {
			fmt.Println("replay: the real code violates the clause on this input (confirmed)")
			return 1
		}
		fmt.Println("replay: not reproduced")
	}
	return 0
}
