package main

// Property-specific extra obligations and bounded stand-ins.

func runExtras(p *Program, prop, tier string, seed int) *ExtraResult {
	return nil
}
