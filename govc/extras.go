package main

// Property-specific extra obligations (ground facts read mechanically from non-Go text) and
// bounded stand-ins (labelled bounded, never counted as proved).

import (
	"encoding/json"
	"fmt"
	"go/ast"
	"go/types"
	"math/big"
	"os"
	"os/exec"
	"path/filepath"
	"regexp"
	"strconv"
	"strings"
	"time"
)

func runExtras(p *Program, prop, tier string, seed int) *ExtraResult {
	er := &ExtraResult{}
	switch prop {
	case "C16":
		done := make(chan bool)
		go func() { runBounded(p, er, "store", []string{"murmur", "crc"}, tier, seed); done <- true }()
		crcTableObligations(p, er)
		<-done
	case "C10":
		runBounded(p, er, "quicklz", []string{"safe", "cross"}, tier, seed)
	case "C15":
		runBounded(p, er, "store", []string{"bucketdir"}, tier, seed)
	case "C09":
		done := make(chan bool)
		go func() { runBounded(p, er, "store", []string{"crc"}, tier, seed); done <- true }()
		crcTableObligations(p, er)
		<-done
	}
	if len(er.Obls) == 0 && len(er.Bounded) == 0 {
		return nil
	}
	return er
}

// adhocExec: an executor used only to build terms over spec functions of a package.
func adhocExec(p *Program, pkgShort, mode string) (*Exec, *FuncResult) {
	pkg := p.Pkgs[pkgShort]
	eng := newEngine(p)
	c := NewCtx()
	x := &Exec{eng: eng, c: c, mode: mode, pkg: pkg.Types, info: pkg.TypesInfo, key: pkgShort + ".extra",
		counters: map[string]int{}, boxed: map[types.Object]bool{}, placehold: map[string]Val{}, assumed: map[string]bool{}, abstract: map[string]bool{},
		loopOrd: map[ast.Stmt]int{}, rangeFacts: map[int]bool{}, callCount: map[string]int{}, specs: map[string]*specInfo{}, globalInit: map[string]bool{}, callSeen: map[string]int{}}
	fr := &FuncResult{Key: x.key, Ctx: c, Exec: x, Contract: &Contract{Key: x.key, Ints: mode, Pkg: pkg}}
	return x, fr
}

var reCRCTable = regexp.MustCompile(`(?s)crc32_table\[256\]\s*=\s*\{(.*?)\};`)
var reCRCLoop = regexp.MustCompile(`(?s)for\s*\(end = buf \+ len; buf < end; \+\+buf\)\s*crc = crc32_table\[\(crc \^ \*buf\) & 0xff\] \^ \(crc >> 8\);\s*return crc;`)

// crcTableObligations: the 256 words of the C table (initializer text of the cgo preamble, read by
// pattern) equal the bitwise reflected CRC-32 definition. Dropped: everything else of the C text,
// except that the three-line loop is matched textually against the form the step lemma covers.
func crcTableObligations(p *Program, er *ExtraResult) {
	src, err := os.ReadFile(filepath.Join(p.RepoDir, "store", "crc32.go"))
	fail := func(msg string) {
		er.Obls = append(er.Obls, &Obligation{Name: "store.crc32_table/parse", Func: "store.crc32_table", Kind: "extra", Text: msg, Status: "error", Model: msg})
	}
	if err != nil {
		fail("cannot read store/crc32.go: " + err.Error())
		return
	}
	m := reCRCTable.FindSubmatch(src)
	if m == nil {
		fail("crc32_table initializer not found in the cgo preamble of store/crc32.go")
		return
	}
	var words []uint64
	for _, f := range strings.FieldsFunc(string(m[1]), func(r rune) bool { return r == ',' || r == ' ' || r == '\n' || r == '\t' || r == '\r' }) {
		v, err := strconv.ParseUint(f, 0, 32)
		if err != nil {
			fail("bad table word " + f)
			return
		}
		words = append(words, v)
	}
	if len(words) != 256 {
		fail(fmt.Sprintf("crc32_table has %d words, want 256", len(words)))
		return
	}
	x, fr := adhocExec(p, "store", "bv")
	fn, _ := x.pkg.Scope().Lookup("specCRCTable").(*types.Func)
	if fn == nil {
		fail("spec function specCRCTable not found")
		return
	}
	func() {
		defer func() {
			if r := recover(); r != nil {
				fail(fmt.Sprint("cannot translate specCRCTable: ", r))
			}
		}()
		si := x.specFor(fn)
		c := x.c
		for blk := 0; blk < 16; blk++ {
			var conj []*Term
			for i := blk * 16; i < blk*16+16; i++ {
				conj = append(conj, c.Eq(c.App(si.Name, x.idxLit(int64(i))), c.BV(32, new(big.Int).SetUint64(words[i]))))
			}
			o := &Obligation{Name: fmt.Sprintf("store.crc32_table/entries#%d-%d", blk*16, blk*16+15), Func: "store.crc32_table", Kind: "extra",
				Text: fmt.Sprintf("crc32_table[i] == specCRCTable(i) for i in %d..%d (initializer text of the cgo preamble)", blk*16, blk*16+15),
				Goal: c.And(conj...), Assumptions: nil}
			er.Obls = append(er.Obls, o)
		}
	}()
	frs := []*FuncResult{fr}
	fr.Obls = er.Obls
	solveAll(frs, 10, false, 5)
	nOK := 0
	for _, o := range er.Obls {
		if o.Status == "unsat" {
			nOK++
		}
	}
	er.Functions = append(er.Functions, map[string]interface{}{"function": "store.crc32_table (C initializer, 256 words)", "status": "verified (ground obligations)", "obligations": len(er.Obls), "discharged": nOK})
	if !reCRCLoop.Match(src) {
		er.Obls = append(er.Obls, &Obligation{Name: "store.crc32_write/loop-text", Func: "store.crc32_write", Kind: "extra",
			Text: "the C loop has the textual form covered by lemmaCRCStep", Status: "sat",
			Model: "the C text of crc32_write no longer matches `for (end = buf + len; buf < end; ++buf) crc = crc32_table[(crc ^ *buf) & 0xff] ^ (crc >> 8); return crc;` — the step lemma does not cover it"})
	} else {
		er.Obls = append(er.Obls, &Obligation{Name: "store.crc32_write/loop-text", Func: "store.crc32_write", Kind: "extra",
			Text: "the C loop has the textual form covered by lemmaCRCStep (pattern match on the cgo preamble)", Status: "unsat", Backend: "pattern-match"})
	}
	er.Assumed = append(er.Assumed, "C semantics of the three-line crc32_write loop (matched textually; the Go side only sees the assumed contract of crc32.write); bounded differential below")
}

// ---------- bounded stand-ins ----------

// runBounded runs /verif/govc/bounded/<pkg>_<name>_test.go.txt (one file per name) as in-package
// tests through one `go test -overlay` invocation and records the outcomes under
// coverage.bounded_checks.
func runBounded(p *Program, er *ExtraResult, pkgShort string, names []string, tier string, seed int) {
	repo := p.RepoDir
	repl := map[string]string{}
	recs := map[string]map[string]interface{}{}
	for _, name := range names {
		tmpl := filepath.Join(verifDir, "govc", "bounded", pkgShort+"_"+name+"_test.go.txt")
		rec := map[string]interface{}{"name": pkgShort + "." + name, "label": "bounded", "template": tmpl}
		recs[name] = rec
		src, err := os.ReadFile(tmpl)
		if err != nil {
			rec["error"] = err.Error()
			continue
		}
		srcFile := filepath.Join(scratchDir, "bounded_"+name+"_test.go")
		os.WriteFile(srcFile, src, 0o644)
		repl[filepath.Join(repo, pkgShort, "zz_govc_bounded_"+name+"_test.go")] = srcFile
	}
	ovData, _ := json.Marshal(map[string]map[string]string{"Replace": repl})
	ovFile := filepath.Join(scratchDir, "overlay_bounded_"+pkgShort+".json")
	os.WriteFile(ovFile, ovData, 0o644)
	t0 := time.Now()
	cmd := exec.Command("go", "test", "-tags", "verif", "-overlay", ovFile, "-vet=off", "-count=1", "-timeout", "900s", "-run", "^TestGovcBounded", "-v", "./"+pkgShort)
	cmd.Dir = repo
	cmd.Env = append(os.Environ(), "GOFLAGS=-mod=mod", "GOPROXY=off", "GOSUMDB=off", "GOTOOLCHAIN=local",
		fmt.Sprintf("VERIF_SEED=%d", seed), "VERIF_TIER="+tier)
	out, _ := cmd.CombinedOutput()
	txt := string(out)
	secs := round3(time.Since(t0).Seconds())
	for _, name := range names {
		rec := recs[name]
		rec["seconds_shared_run"] = secs
		cases := 0
		var bounds []string
		for _, l := range strings.Split(txt, "\n") {
			if i := strings.Index(l, "GOVC-BOUNDED-OK "+name+" "); i >= 0 {
				for _, kv := range strings.Fields(l[i:]) {
					if strings.HasPrefix(kv, "cases=") {
						n, _ := strconv.Atoi(kv[6:])
						cases += n
					}
				}
				bounds = append(bounds, strings.TrimSpace(l[i+len("GOVC-BOUNDED-OK"):]))
			}
			if i := strings.Index(l, "GOVC-BOUNDED-FAIL "+name); i >= 0 {
				rec["violation"] = strings.TrimSpace(l[i:])
			}
		}
		rec["cases"] = cases
		rec["bounds"] = bounds
		if _, bad := rec["violation"]; !bad && goPanicIn(txt, name) {
			// the real code panicked on an in-bounds input of this test: that is the failing case
			rec["violation"] = "GOVC-BOUNDED-FAIL " + name + " the code under test panicked: " + firstLines(panicSummary(txt), 8)
		}
		if _, bad := rec["violation"]; !bad && cases == 0 {
			if strings.Contains(txt, "SIGSEGV") || strings.Contains(txt, "signal arrived during cgo execution") || strings.Contains(txt, "fatal error:") {
				// the test process died: a crash is the violation (the last lines show where)
				rec["violation"] = "GOVC-BOUNDED-FAIL " + name + " the test process crashed: " + firstLines(crashSummary(txt), 6)
			} else if strings.Contains(txt, "GOVC-BOUNDED-OK") || strings.Contains(txt, "GOVC-BOUNDED-FAIL") {
				// another test of the same run failed first; this one did not run
				rec["skipped"] = "not run: an earlier bounded test of the same package failed or crashed"
			} else {
				rec["error"] = truncate(txt, 1500)
			}
		}
		er.Bounded = append(er.Bounded, rec)
	}
}

// goPanicIn reports whether the bounded test TestGovcBounded<name> itself ended in a Go panic
// ("--- FAIL: TestGovcBounded<Name>" followed by "panic:"): a run-time panic of the code under test.
func goPanicIn(txt, name string) bool {
	low := strings.ToLower(txt)
	i := strings.Index(low, "--- fail: testgovcbounded"+strings.ToLower(name)+" ")
	if i < 0 {
		return false
	}
	return strings.Contains(low[i:], "\npanic:")
}

func panicSummary(txt string) string {
	var keep []string
	on := false
	for _, l := range strings.Split(txt, "\n") {
		if strings.HasPrefix(l, "panic:") {
			on = true
		}
		if !on {
			continue
		}
		if strings.HasPrefix(l, "panic:") || (strings.Contains(l, "github.com/douban/gobeansdb") && !strings.Contains(l, "zz_govc_bounded")) {
			keep = append(keep, strings.TrimSpace(l))
		}
		if len(keep) >= 8 {
			break
		}
	}
	return strings.Join(keep, "\n")
}

func crashSummary(txt string) string {
	var keep []string
	for _, l := range strings.Split(txt, "\n") {
		if strings.Contains(l, "SIGSEGV") || strings.Contains(l, "signal arrived") || strings.Contains(l, "fatal error") || strings.Contains(l, "_Cfunc_") || strings.Contains(l, "quicklz.") {
			keep = append(keep, strings.TrimSpace(l))
		}
		if len(keep) >= 6 {
			break
		}
	}
	return strings.Join(keep, "\n")
}
