package main

// Replay: turn a solver model (or a random search) into a Go test that runs the REAL function and
// evaluates the violated clause natively with the executable spec functions. The test is injected
// with `go test -overlay` — nothing is written into the repository.

import (
	"encoding/json"
	"fmt"
	"go/types"
	"math/big"
	"os"
	"os/exec"
	"path/filepath"
	"regexp"
	"sort"
	"strings"
)

type probe struct {
	name string
	term *Term
}

const probeElems = 260

// probeVal collects the terms whose model values describe Go value v of type t at entry.
func (x *Exec) probeVal(st *State, name string, v Val, t types.Type, depth int, out *[]probe) {
	switch u := t.Underlying().(type) {
	case *types.Basic:
		if isString(t) {
			*out = append(*out, probe{name + ".len", x.c.App("str_len", v.T)})
			for i := 0; i < probeElems; i++ {
				*out = append(*out, probe{fmt.Sprintf("%s[%d]", name, i), x.c.Select(x.c.App("str_bytes", v.T), x.idxLit(int64(i)))})
			}
			return
		}
		if v.T != nil {
			*out = append(*out, probe{name, v.T})
		}
	case *types.Slice:
		el := u.Elem()
		if isObjType(el) || isSliceT(el) || !v.IsSlice() {
			return
		}
		if _, ok := el.Underlying().(*types.Basic); !ok {
			return
		}
		*out = append(*out, probe{name + ".len", v.Len}, probe{name + ".nil", x.c.Eq(v.Arr, x.c.Int(0))})
		for i := 0; i < probeElems; i++ {
			e := x.loadElem(st, v.Arr, x.idxAdd(v.Off, x.idxLit(int64(i))), el)
			if e.T != nil && !isString(el) {
				*out = append(*out, probe{fmt.Sprintf("%s[%d]", name, i), e.T})
			}
		}
	case *types.Pointer:
		*out = append(*out, probe{name + ".nil", x.c.Eq(v.T, x.c.Int(0))})
		if depth <= 0 {
			return
		}
		if isObjType(u.Elem()) {
			x.probeVal(st, name, Val{T: v.T, Typ: u.Elem()}, u.Elem(), depth, out)
		}
	case *types.Struct:
		sk := typeKey(t)
		for i := 0; i < u.NumFields(); i++ {
			f := u.Field(i)
			if f.Name() == "_" {
				continue
			}
			fv := x.loadField(st, v.T, sk, f.Name(), f.Type())
			x.probeVal(st, name+"."+f.Name(), fv, f.Type(), depth-1, out)
		}
	case *types.Array:
		el := u.Elem()
		if isObjType(el) || isSliceT(el) || u.Len() > 64 {
			return
		}
		for i := int64(0); i < u.Len(); i++ {
			e := x.loadElem(st, v.T, x.idxLit(i), el)
			if e.T != nil {
				*out = append(*out, probe{fmt.Sprintf("%s[%d]", name, i), e.T})
			}
		}
	}
}

func (x *Exec) entryProbes() (ps []probe) {
	defer func() {
		if r := recover(); r != nil {
			if _, ok := r.(*Abort); !ok {
				panic(r)
			}
			ps = nil
		}
	}()
	if x.entry == nil {
		return nil
	}
	st := x.entry.clone()
	x.noOblig++
	defer func() { x.noOblig-- }()
	sig := x.conSig
	var out []probe
	add := func(p *types.Var) {
		if p == nil || p.Name() == "" || p.Name() == "_" {
			return
		}
		v, ok := st.vars[p]
		if !ok {
			return
		}
		if x.boxed[p] && !isObjType(p.Type()) {
			v = x.load(st, LV{kind: lvCell, ref: v.T, typ: p.Type()})
		}
		x.probeVal(st, p.Name(), v, p.Type(), 3, &out)
	}
	add(sig.Recv())
	for i := 0; i < sig.Params().Len(); i++ {
		add(sig.Params().At(i))
	}
	// package-level configuration pointers used by many contracts
	return out
}

// modelValues re-runs a solver on the obligation with get-value for the probes.
func modelValues(fr *FuncResult, o *Obligation, probes []probe) map[string]string {
	if len(probes) == 0 {
		return nil
	}
	x := fr.Exec
	var terms []*Term
	for _, p := range probes {
		terms = append(terms, p.term)
	}
	as := append(append([]*Term{}, x.strLitFacts()...), o.Assumptions...)
	sc := fr.Ctx.BuildScript(as, o.Goal, terms, ScriptOpts{Opaque: o.Opaque})
	file := filepath.Join(scratchDir, "model.smt2")
	os.WriteFile(file, []byte(sc.Text), 0o644)
	defer os.Remove(file)
	bins := [][]string{{"z3-new", "-T:20", file}, {"/usr/bin/z3", "-T:20", file}, {"cvc5", "--tlimit=20000", "--produce-models", file}}
	if strings.HasPrefix(o.Backend, "z3-4") {
		bins[0], bins[1] = bins[1], bins[0]
	} else if strings.HasPrefix(o.Backend, "cvc5") {
		bins[0], bins[2] = bins[2], bins[0]
	}
	for _, b := range bins {
		out, _ := exec.Command(b[0], b[1:]...).CombinedOutput()
		txt := string(out)
		if !strings.HasPrefix(strings.TrimSpace(txt), "sat") {
			continue
		}
		rest := txt[strings.Index(txt, "sat")+3:]
		vals := parseGetValue(rest)
		if len(vals) != len(probes) {
			continue
		}
		m := map[string]string{}
		for i, p := range probes {
			m[p.name] = vals[i]
		}
		return m
	}
	return nil
}

// parseGetValue parses "((t1 v1) (t2 v2) ...)" and returns the values (as normalised text).
func parseGetValue(s string) []string {
	toks := tokenize(s)
	pos := 0
	var parse func() interface{}
	parse = func() interface{} {
		if pos >= len(toks) {
			return nil
		}
		t := toks[pos]
		pos++
		if t == "(" {
			var l []interface{}
			for pos < len(toks) && toks[pos] != ")" {
				l = append(l, parse())
			}
			pos++
			return l
		}
		return t
	}
	top, ok := parse().([]interface{})
	if !ok {
		return nil
	}
	var out []string
	for _, e := range top {
		pair, ok := e.([]interface{})
		if !ok || len(pair) != 2 {
			return nil
		}
		out = append(out, sexprValue(pair[1]))
	}
	return out
}

func tokenize(s string) []string {
	var toks []string
	i := 0
	for i < len(s) {
		c := s[i]
		switch {
		case c == '(' || c == ')':
			toks = append(toks, string(c))
			i++
		case c == ' ' || c == '\n' || c == '\t' || c == '\r':
			i++
		case c == '|':
			j := strings.IndexByte(s[i+1:], '|')
			if j < 0 {
				return toks
			}
			toks = append(toks, s[i:i+j+2])
			i += j + 2
		case c == '"':
			j := i + 1
			for j < len(s) && s[j] != '"' {
				j++
			}
			toks = append(toks, s[i:j+1])
			i = j + 1
		default:
			j := i
			for j < len(s) && !strings.ContainsRune("() \n\t\r", rune(s[j])) {
				j++
			}
			toks = append(toks, s[i:j])
			i = j
		}
	}
	return toks
}

// sexprValue renders a model value as a decimal integer / true / false / opaque text.
func sexprValue(v interface{}) string {
	switch t := v.(type) {
	case string:
		if strings.HasPrefix(t, "#x") {
			n := new(big.Int)
			n.SetString(t[2:], 16)
			return fmt.Sprintf("bv%d:%s", 4*(len(t)-2), n.String())
		}
		if strings.HasPrefix(t, "#b") {
			n := new(big.Int)
			n.SetString(t[2:], 2)
			return fmt.Sprintf("bv%d:%s", len(t)-2, n.String())
		}
		return t
	case []interface{}:
		if len(t) == 2 && t[0] == "-" {
			return "-" + sexprValue(t[1])
		}
		if len(t) == 3 && t[0] == "_" {
			if s, ok := t[1].(string); ok && strings.HasPrefix(s, "bv") {
				return fmt.Sprintf("bv%v:%s", t[2], s[2:])
			}
		}
		return fmt.Sprint(t)
	}
	return ""
}

func parseModelValues(o *Obligation) map[string]string { return nil }

// goInt renders a model value as a Go literal of integer type t.
func goIntLit(val string, t types.Type) (string, bool) {
	w, signed, ok := intInfo(t)
	if !ok {
		return "", false
	}
	n := new(big.Int)
	if strings.HasPrefix(val, "bv") {
		i := strings.Index(val, ":")
		if _, ok := n.SetString(val[i+1:], 10); !ok {
			return "", false
		}
		if signed {
			half := new(big.Int).Lsh(big.NewInt(1), uint(w-1))
			if n.Cmp(half) >= 0 {
				n.Sub(n, new(big.Int).Lsh(big.NewInt(1), uint(w)))
			}
		}
	} else if _, ok := n.SetString(val, 10); !ok {
		return "", false
	}
	return n.String(), true
}

type replayGen struct {
	vals    map[string]string
	pkg     *types.Package
	imports map[string]string
	ok      bool
	why     string
}

func (g *replayGen) qual(p *types.Package) string {
	if p == g.pkg {
		return ""
	}
	g.imports[p.Path()] = p.Name()
	return p.Name()
}

func (g *replayGen) typeStr(t types.Type) string { return types.TypeString(t, g.qual) }

func (g *replayGen) lenOf(name string) (int, bool) {
	v, ok := g.vals[name+".len"]
	if !ok {
		return 0, false
	}
	s, ok := goIntLit(v, types.Typ[types.Int])
	if !ok {
		return 0, false
	}
	var n int
	fmt.Sscanf(s, "%d", &n)
	return n, true
}

// expr builds a Go expression constructing the model's value for `name` of type t.
func (g *replayGen) expr(name string, t types.Type, depth int) string {
	switch u := t.Underlying().(type) {
	case *types.Basic:
		if isString(t) {
			n, ok := g.lenOf(name)
			if !ok || n < 0 || n > probeElems {
				g.ok, g.why = false, fmt.Sprintf("string %s has length %d in the model (replay builds at most %d bytes)", name, n, probeElems)
				return `""`
			}
			var bs []string
			for i := 0; i < n; i++ {
				b, _ := goIntLit(g.vals[fmt.Sprintf("%s[%d]", name, i)], types.Typ[types.Uint8])
				if b == "" {
					b = "0"
				}
				bs = append(bs, b)
			}
			return fmt.Sprintf("%s([]byte{%s})", g.typeStr(t), strings.Join(bs, ", "))
		}
		if isBool(t) {
			if g.vals[name] == "true" {
				return "true"
			}
			return "false"
		}
		if lit, ok := goIntLit(g.vals[name], t); ok {
			return fmt.Sprintf("%s(%s)", g.typeStr(t), lit)
		}
		return fmt.Sprintf("*new(%s)", g.typeStr(t))
	case *types.Slice:
		if g.vals[name+".nil"] == "true" {
			return fmt.Sprintf("%s(nil)", g.typeStr(t))
		}
		n, ok := g.lenOf(name)
		if !ok {
			return fmt.Sprintf("%s(nil)", g.typeStr(t))
		}
		if n < 0 || n > probeElems {
			g.ok, g.why = false, fmt.Sprintf("slice %s has length %d in the model (replay builds at most %d elements)", name, n, probeElems)
			return fmt.Sprintf("%s(nil)", g.typeStr(t))
		}
		var es []string
		for i := 0; i < n; i++ {
			es = append(es, g.expr(fmt.Sprintf("%s[%d]", name, i), u.Elem(), depth-1))
		}
		return fmt.Sprintf("%s{%s}", g.typeStr(t), strings.Join(es, ", "))
	case *types.Pointer:
		if g.vals[name+".nil"] == "true" || depth <= 0 {
			return "nil"
		}
		if isStruct(u.Elem()) {
			return "&" + g.expr(name, u.Elem(), depth)
		}
		return "nil"
	case *types.Struct:
		var fs []string
		for i := 0; i < u.NumFields(); i++ {
			f := u.Field(i)
			if f.Name() == "_" {
				continue
			}
			switch f.Type().Underlying().(type) {
			case *types.Basic, *types.Slice, *types.Pointer, *types.Struct, *types.Array:
				if !f.Exported() && f.Pkg() != g.pkg {
					continue
				}
				if _, ok := f.Type().Underlying().(*types.Pointer); ok && depth <= 1 {
					continue
				}
				fs = append(fs, fmt.Sprintf("%s: %s", f.Name(), g.expr(name+"."+f.Name(), f.Type(), depth-1)))
			}
		}
		return fmt.Sprintf("%s{%s}", g.typeStr(t), strings.Join(fs, ", "))
	case *types.Array:
		if u.Len() > 64 {
			return fmt.Sprintf("%s{}", g.typeStr(t))
		}
		var es []string
		for i := int64(0); i < u.Len(); i++ {
			es = append(es, g.expr(fmt.Sprintf("%s[%d]", name, i), u.Elem(), depth-1))
		}
		return fmt.Sprintf("%s{%s}", g.typeStr(t), strings.Join(es, ", "))
	}
	return fmt.Sprintf("*new(%s)", g.typeStr(t))
}

var reOldCall = regexp.MustCompile(`\bold\(`)

// nativeClause rewrites a clause into plain Go: ==> desugared, old(e) replaced by temporaries.
func nativeClause(text string) (expr string, olds []string) {
	text = desugarImplies(text)
	for {
		loc := reOldCall.FindStringIndex(text)
		if loc == nil {
			break
		}
		// find matching paren
		depth := 0
		end := -1
		for i := loc[1] - 1; i < len(text); i++ {
			if text[i] == '(' {
				depth++
			} else if text[i] == ')' {
				depth--
				if depth == 0 {
					end = i
					break
				}
			}
		}
		if end < 0 {
			break
		}
		inner := text[loc[1]:end]
		olds = append(olds, inner)
		text = text[:loc[0]] + fmt.Sprintf("__old%d", len(olds)-1) + text[end+1:]
	}
	return text, olds
}

func replayableType(t types.Type, depth int) bool {
	switch u := t.Underlying().(type) {
	case *types.Basic:
		return !isFloat(t)
	case *types.Slice:
		_, ok := u.Elem().Underlying().(*types.Basic)
		return ok && !isString(u.Elem())
	case *types.Pointer:
		return depth > 0 && isStruct(u.Elem()) && replayableType(u.Elem(), depth-1)
	case *types.Struct:
		return true
	case *types.Array:
		return u.Len() <= 64
	}
	return false
}

// buildReplayTest returns the test source for the given model values.
func buildReplayTest(fr *FuncResult, o *Obligation, vals map[string]string) (src string, note string) {
	con := fr.Contract
	sig := con.Fn.Type().(*types.Signature)
	g := &replayGen{vals: vals, pkg: con.Pkg.Types, imports: map[string]string{}, ok: true}
	var b strings.Builder
	var body strings.Builder
	decl := func(p *types.Var) bool {
		if p.Name() == "" || p.Name() == "_" {
			return false
		}
		if !replayableType(p.Type(), 3) {
			g.ok, g.why = false, fmt.Sprintf("parameter %s of type %s cannot be built from a model (needs a state builder)", p.Name(), g.typeStr(p.Type()))
			return false
		}
		fmt.Fprintf(&body, "\tvar %s %s = %s\n\t_ = %s\n", p.Name(), g.typeStr(p.Type()), g.expr(p.Name(), p.Type(), 3), p.Name())
		return true
	}
	if sig.Recv() != nil {
		decl(sig.Recv())
	}
	var argNames []string
	for i := 0; i < sig.Params().Len(); i++ {
		p := sig.Params().At(i)
		if !decl(p) {
			g.ok = false
			if g.why == "" {
				g.why = "unnamed parameter"
			}
		}
		if sig.Variadic() && i == sig.Params().Len()-1 {
			argNames = append(argNames, p.Name()+"...")
		} else {
			argNames = append(argNames, p.Name())
		}
	}
	if !g.ok {
		return "", g.why
	}
	// the clause (ensures) or just the call (safety)
	clause := ""
	var olds []string
	if o.Kind == "ensures" {
		// find the clause text: all conjuncts are evaluated together
		clause, olds = nativeClause(o.Text)
	}
	for i, e := range olds {
		fmt.Fprintf(&body, "\t__old%d := %s\n\t_ = __old%d\n", i, e, i)
	}
	var resNames []string
	for i := 0; i < sig.Results().Len(); i++ {
		r := sig.Results().At(i)
		n := r.Name()
		if n == "" || n == "_" {
			n = fmt.Sprintf("result%d", i)
		}
		resNames = append(resNames, n)
		fmt.Fprintf(&body, "\tvar %s %s\n\t_ = %s\n", n, g.typeStr(r.Type()), n)
	}
	call := con.Fn.Name() + "(" + strings.Join(argNames, ", ") + ")"
	if sig.Recv() != nil {
		call = sig.Recv().Name() + "." + call
	}
	if len(resNames) > 0 {
		call = strings.Join(resNames, ", ") + " = " + call
	}
	fmt.Fprintf(&body, "\tpanicked := func() (p interface{}) {\n\t\tdefer func() { p = recover() }()\n\t\t%s\n\t\treturn nil\n\t}()\n", call)
	fmt.Fprintf(&body, "\tif panicked != nil {\n\t\tt.Fatalf(\"GOVC-REPLAY-CONFIRMED: %s panics on the model input: %%v\", panicked)\n\t}\n", con.Key)
	if clause != "" {
		fmt.Fprintf(&body, "\tholds := func() (ok bool) {\n\t\tdefer func() {\n\t\t\tif recover() != nil {\n\t\t\t\tok = true\n\t\t\t}\n\t\t}()\n\t\treturn %s\n\t}()\n", clause)
		fmt.Fprintf(&body, "\tif !holds {\n\t\tt.Fatalf(\"GOVC-REPLAY-CONFIRMED: clause violated by the real code: %%s\", %q)\n\t}\n", o.Text)
	}
	fmt.Fprintf(&body, "\tt.Log(\"GOVC-REPLAY-NOT-REPRODUCED\")\n")
	fmt.Fprintf(&b, "//go:build verif\n// +build verif\n\npackage %s\n\nimport (\n\t\"testing\"\n", con.Pkg.Types.Name())
	clauseImports(fr, body.String(), g.imports)
	var imps []string
	for path := range g.imports {
		imps = append(imps, path)
	}
	sort.Strings(imps)
	for _, p := range imps {
		fmt.Fprintf(&b, "\t%q\n", p)
	}
	fmt.Fprintf(&b, ")\n\n// replay of obligation %s\nfunc TestGovcReplay(t *testing.T) {\n%s}\n", o.Name, body.String())
	return b.String(), ""
}

// runReplayTest injects the test with -overlay and runs it; ok = the violation was confirmed.
func runReplayTest(fn, src string) (string, bool) {
	pkgShort := fn[:strings.Index(fn, ".")]
	// a state builder may live in another package than the function of its obligation (e.g. the
	// store-level call a web handler makes): `// govc-replay-package: <dir>`
	for _, l := range strings.Split(src, "\n") {
		if strings.HasPrefix(l, "// govc-replay-package:") {
			pkgShort = strings.TrimSpace(strings.TrimPrefix(l, "// govc-replay-package:"))
		}
	}
	repo := repoDir()
	pkgDir := filepath.Join(repo, pkgShort)
	testPath := filepath.Join(pkgDir, "zz_govc_replay_test.go")
	os.MkdirAll(scratchDir, 0o755)
	srcFile := filepath.Join(scratchDir, "replay_test.go")
	os.WriteFile(srcFile, []byte(src), 0o644)
	ov := map[string]map[string]string{"Replace": {testPath: srcFile}}
	ovData, _ := json.Marshal(ov)
	ovFile := filepath.Join(scratchDir, "overlay.json")
	os.WriteFile(ovFile, ovData, 0o644)
	cmd := exec.Command("go", "test", "-tags", "verif", "-overlay", ovFile, "-vet=off", "-count=1", "-timeout", "60s", "-run", "^TestGovcReplay$", "./"+pkgShort)
	cmd.Dir = repo
	cmd.Env = append(os.Environ(), "GOFLAGS=-mod=mod", "GOPROXY=off", "GOSUMDB=off", "GOTOOLCHAIN=local")
	out, _ := cmd.CombinedOutput()
	txt := string(out)
	return truncate(txt, 4000), strings.Contains(txt, "GOVC-REPLAY-CONFIRMED")
}

func tryReplay(p *Program, o *Obligation, rf *ReplayFile, frs []*FuncResult) {
	var fr *FuncResult
	for _, f := range frs {
		for _, oo := range f.Obls {
			if oo == o {
				fr = f
			}
		}
	}
	// hand-written state builder for this obligation, if any
	if src, err := os.ReadFile(filepath.Join(verifDir, "govc", "builders", sanitize(baseObl(o.Name))+"_test.go.txt")); err == nil {
		rf.TestSource = string(src)
		rf.ReplayNote = "state-builder replay (pre-state reached through the public API in a scratch directory)"
		out, ok := runReplayTest(o.Func, string(src))
		rf.TestOutput = out
		if ok {
			rf.Replay = "confirmed"
		} else {
			rf.Replay = "not-reproduced"
		}
		return
	}
	if fr == nil || fr.Exec == nil {
		rf.ReplayNote = "no function context for this obligation (extra obligation)"
		return
	}
	if o.Kind != "ensures" && o.Kind != "safety" && o.Kind != "call-requires" {
		rf.ReplayNote = "obligation kind " + o.Kind + " describes an intermediate state; no direct replay"
		replayBySearch(fr, o, rf)
		return
	}
	if o.Status != "sat" {
		rf.ReplayNote = "solver gave no model (" + o.Status + ")"
		replayBySearch(fr, o, rf)
		return
	}
	probes := fr.Exec.entryProbes()
	vals := modelValues(fr, o, probes)
	if vals == nil {
		rf.ReplayNote = "could not extract model values"
		replayBySearch(fr, o, rf)
		return
	}
	rf.ModelValues = map[string]string{}
	for k, v := range vals {
		if !strings.Contains(k, "[") || len(rf.ModelValues) < 200 {
			rf.ModelValues[k] = v
		}
	}
	src, note := buildReplayTest(fr, o, vals)
	if src == "" {
		rf.ReplayNote = note
		replayBySearch(fr, o, rf)
		return
	}
	rf.TestSource = src
	out, ok := runReplayTest(o.Func, src)
	rf.TestOutput = out
	if ok {
		rf.Replay = "confirmed"
		return
	}
	rf.Replay = "not-reproduced"
	replayBySearch(fr, o, rf)
}

// replayBySearch: for functions whose parameters are integers, booleans, strings and slices of
// integers, run the real function on random inputs and evaluate every ensures clause natively.
func replayBySearch(fr *FuncResult, o *Obligation, rf *ReplayFile) {
	con := fr.Contract
	sig := con.Fn.Type().(*types.Signature)
	if sig.Recv() != nil || len(con.Ensures) == 0 {
		return
	}
	g := &replayGen{pkg: con.Pkg.Types, imports: map[string]string{}, ok: true}
	var gen strings.Builder
	var argNames []string
	for i := 0; i < sig.Params().Len(); i++ {
		p := sig.Params().At(i)
		if p.Name() == "" || p.Name() == "_" {
			return
		}
		ts := g.typeStr(p.Type())
		switch u := p.Type().Underlying().(type) {
		case *types.Basic:
			switch {
			case isString(p.Type()):
				fmt.Fprintf(&gen, "\t\t%s := %s(govcRandBytes(rng))\n", p.Name(), ts)
			case isBool(p.Type()):
				fmt.Fprintf(&gen, "\t\t%s := %s(rng.Intn(2) == 0)\n", p.Name(), ts)
			default:
				if _, _, ok := intInfo(p.Type()); !ok {
					return
				}
				fmt.Fprintf(&gen, "\t\t%s := %s(govcRandInt(rng))\n", p.Name(), ts)
			}
		case *types.Slice:
			b, ok := u.Elem().Underlying().(*types.Basic)
			if !ok || b.Info()&types.IsInteger == 0 {
				return
			}
			if b.Kind() == types.Uint8 {
				fmt.Fprintf(&gen, "\t\t%s := %s(govcRandBytes(rng))\n", p.Name(), ts)
			} else {
				fmt.Fprintf(&gen, "\t\tvar %s %s\n\t\tfor _, b := range govcRandBytes(rng) { %s = append(%s, %s(b)) }\n", p.Name(), ts, p.Name(), p.Name(), g.typeStr(u.Elem()))
			}
		default:
			return
		}
		fmt.Fprintf(&gen, "\t\t_ = %s\n", p.Name())
		argNames = append(argNames, p.Name())
	}
	var resNames []string
	var resDecl strings.Builder
	for i := 0; i < sig.Results().Len(); i++ {
		r := sig.Results().At(i)
		n := r.Name()
		if n == "" || n == "_" {
			n = fmt.Sprintf("result%d", i)
		}
		resNames = append(resNames, n)
		fmt.Fprintf(&resDecl, "\t\tvar %s %s\n\t\t_ = %s\n", n, g.typeStr(r.Type()), n)
	}
	var reqs, checks strings.Builder
	for _, rq := range con.Requires {
		e, olds := nativeClause(rq.Text)
		if len(olds) > 0 {
			return
		}
		fmt.Fprintf(&reqs, "\t\tif !govcHolds(func() bool { return %s }) { continue }\n", e)
	}
	var oldDecl strings.Builder
	nOld := 0
	for _, en := range con.Ensures {
		e, olds := nativeClause(en.Text)
		for i, oe := range olds {
			e = strings.ReplaceAll(e, fmt.Sprintf("__old%d", i), fmt.Sprintf("__old%d", nOld+i))
			fmt.Fprintf(&oldDecl, "\t\t__old%d := %s\n\t\t_ = __old%d\n", nOld+i, oe, nOld+i)
		}
		nOld += len(olds)
		fmt.Fprintf(&checks, "\t\tif !govcHolds(func() bool { return %s }) {\n\t\t\tt.Fatalf(\"GOVC-REPLAY-CONFIRMED: clause %%q violated by the real code on input %%#v\", %q, []interface{}{%s})\n\t\t}\n", e, en.Text, strings.Join(argNames, ", "))
	}
	call := con.Fn.Name() + "(" + strings.Join(argNames, ", ") + ")"
	if len(resNames) > 0 {
		call = strings.Join(resNames, ", ") + " = " + call
	}
	var b strings.Builder
	fmt.Fprintf(&b, "//go:build verif\n// +build verif\n\npackage %s\n\nimport (\n\t\"math/rand\"\n\t\"testing\"\n", con.Pkg.Types.Name())
	clauseImports(fr, reqs.String()+checks.String()+oldDecl.String(), g.imports)
	delete(g.imports, "math/rand")
	delete(g.imports, "testing")
	var imps []string
	for path := range g.imports {
		imps = append(imps, path)
	}
	sort.Strings(imps)
	for _, p := range imps {
		fmt.Fprintf(&b, "\t%q\n", p)
	}
	fmt.Fprintf(&b, `)

func govcRandBytes(rng *rand.Rand) []byte {
	lens := []int{0, 1, 2, 3, 7, 8, 15, 16, 17, 31, 32, 33, 255, 256, 257, 511, 512, 513, 1023, 1024, 1025, 1026, 2048, 4097}
	n := lens[rng.Intn(len(lens))]
	if rng.Intn(3) == 0 {
		n = rng.Intn(64)
	}
	b := make([]byte, n)
	for i := range b {
		switch rng.Intn(4) {
		case 0:
			b[i] = byte(0x80 + rng.Intn(0x80))
		case 1:
			b[i] = byte(rng.Intn(16))
		default:
			b[i] = byte(rng.Intn(256))
		}
	}
	return b
}

func govcRandInt(rng *rand.Rand) int64 {
	edge := []int64{0, 1, -1, 2, 15, 16, 17, 255, 256, 257, 1023, 1024, 1025, 65535, 65536, 1 << 31, -(1 << 31), 1<<31 - 1, 1<<32 - 1, 1 << 32, 1<<63 - 1, -(1 << 63)}
	switch rng.Intn(3) {
	case 0:
		return edge[rng.Intn(len(edge))]
	case 1:
		return int64(rng.Intn(1 << 16))
	}
	return int64(rng.Uint64())
}

func govcHolds(f func() bool) (ok bool) {
	defer func() {
		if recover() != nil {
			ok = true // the clause itself is not evaluable on this input: not counted
		}
	}()
	return f()
}

// random search for a violating input of %s (obligation %s)
func TestGovcReplay(t *testing.T) {
	rng := rand.New(rand.NewSource(1))
	for iter := 0; iter < 20000; iter++ {
%s%s%s%s		panicked := func() (p interface{}) {
			defer func() { p = recover() }()
			%s
			return nil
		}()
		if panicked != nil {
			t.Fatalf("GOVC-REPLAY-CONFIRMED: panic %%v on input %%#v", panicked, []interface{}{%s})
		}
%s	}
	t.Log("GOVC-REPLAY-NOT-REPRODUCED")
}
`, con.Key, o.Name, gen.String(), reqs.String(), oldDecl.String(), resDecl.String(), call, strings.Join(argNames, ", "), checks.String())
	src := b.String()
	out, ok := runReplayTest(o.Func, src)
	if ok {
		rf.Replay = "confirmed"
		rf.ReplayNote += "; failing input found by random search over the function's inputs (every ensures clause evaluated natively)"
		rf.TestSource = src
		rf.TestOutput = out
	} else if rf.TestSource == "" {
		rf.ReplayNote += "; random search (20000 inputs) found no failing input"
		rf.TestOutput = truncate(out, 1500)
	}
}

// clauseImports: packages imported by the package's contract files and mentioned in the text.
func clauseImports(fr *FuncResult, text string, imports map[string]string) {
	pkg := fr.Contract.Pkg
	for i, f := range pkg.Syntax {
		if !isContractFile(pkg.CompiledGoFiles[i]) {
			continue
		}
		for _, im := range f.Imports {
			path := strings.Trim(im.Path.Value, "\"")
			name := filepath.Base(path)
			if im.Name != nil {
				name = im.Name.Name
			}
			if ip, ok := pkg.Imports[path]; ok && im.Name == nil {
				name = ip.Name
			}
			if regexp.MustCompile(`\b` + regexp.QuoteMeta(name) + `\.`).MatchString(text) {
				imports[path] = name
			}
		}
	}
}
