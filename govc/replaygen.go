package main

func parseModelValues(o *Obligation) map[string]string { return nil }
func tryReplay(p *Program, o *Obligation, rf *ReplayFile, frs []*FuncResult) {}
func runReplayTest(fn, src string) (string, bool) { return "", false }
