/-
  MapSum: the three defining equations of the "map sum" ghost function used by the
  gobeansdb contracts (DESIGN.md §2.2) are theorems about `Σ k ∈ dom, g k (m k)` over a
  finite map (domain `dom : Finset K`, values `m : K → V`) into any commutative group `G`.
  Consequences used by the contracts:
    * a quantity maintained by "+ g(new) − g(old)" on insert/replace/delete equals the sum
      over the current map;
    * the sum depends only on the map (dom, m restricted to dom), not on the order of updates.
-/

import Mathlib.Algebra.BigOperators.Group.Finset.Basic
import Mathlib.Tactic.Abel

open Finset

set_option linter.unusedSectionVars false

variable {K V G : Type*} [DecidableEq K] [AddCommGroup G]

/-- sum of `g k (m k)` over the domain of a finite map -/
def mapsum (dom : Finset K) (m : K → V) (g : K → V → G) : G :=
  ∑ k ∈ dom, g k (m k)

theorem mapsum_empty (m : K → V) (g : K → V → G) : mapsum (∅ : Finset K) m g = 0 := by
  simp [mapsum]

/-- the sum only looks at the map on its domain -/
theorem mapsum_congr (dom : Finset K) (m m' : K → V) (g : K → V → G)
    (h : ∀ k ∈ dom, m k = m' k) : mapsum dom m g = mapsum dom m' g := by
  unfold mapsum
  exact Finset.sum_congr rfl (fun k hk => by rw [h k hk])

/-- insert of a new key adds its contribution -/
theorem mapsum_insert_new (dom : Finset K) (m : K → V) (g : K → V → G) (k : K) (v : V)
    (h : k ∉ dom) :
    mapsum (insert k dom) (Function.update m k v) g = mapsum dom m g + g k v := by
  unfold mapsum
  rw [Finset.sum_insert h, Function.update_self, add_comm]
  congr 1
  apply Finset.sum_congr rfl
  intro x hx
  have hne : x ≠ k := fun e => h (e ▸ hx)
  rw [Function.update_of_ne hne]

/-- delete subtracts the old contribution -/
theorem mapsum_erase (dom : Finset K) (m : K → V) (g : K → V → G) (k : K) (h : k ∈ dom) :
    mapsum (dom.erase k) m g = mapsum dom m g - g k (m k) := by
  unfold mapsum
  rw [← Finset.add_sum_erase dom (fun k => g k (m k)) h]
  abel

/-- replace of an existing key adds the new and subtracts the old contribution -/
theorem mapsum_replace (dom : Finset K) (m : K → V) (g : K → V → G) (k : K) (v : V)
    (h : k ∈ dom) :
    mapsum dom (Function.update m k v) g = mapsum dom m g + g k v - g k (m k) := by
  have h1 : insert k (dom.erase k) = dom := Finset.insert_erase h
  have h2 : k ∉ dom.erase k := Finset.notMem_erase k dom
  have h3 := mapsum_insert_new (dom.erase k) m g k v h2
  rw [h1] at h3
  rw [h3, mapsum_erase dom m g k h]
  abel
