#!/usr/bin/env python3
# Regenerates /verif/MANIFEST.json from the table below (kept here so that claims, notes and
# not-applicable reasons are edited in one place).
import json, subprocess

CLAIMS = {
 "C01": ("version arithmetic for every int32 pair; Bucket.set/get/incr and HStore.Get/Incr glue over abstract tree and log views: a read returns the record the tree points at with the tree's version, bytes and client flags equal to what was appended at that position; readRecordAt accepts only intact records (shared with C09)",
         "protocol-level contract for Bucket.checkAndSet (revision rule wherever the tree's version changes, NOT_FOUND, buffer accounting); its full functional contract (whole-view postconditions) was beyond the solvers (about 10% of its obligations stay undecided within practical solver time); the tree (HTree.get/set), the data store (AppendRecord/GetRecordByPos) and the hint manager enter through ASSUMED interface contracts over ghost views; scope: keys without hash collisions; StorageClient/protocol status mapping not under contract"),
 "C08": ("leaf level of the merkle tree: item codec round trip, key-hash truncation and reconstruction from the node path for every path length (pins KHASH_LENS), leaf Set/Get/Remove against the byte sequence for key-hash lengths 5..8, leaf-node (count, hash) delta contracts of setToLeaf/remvoeFromLeaf; node levels: leaf location from the path digits for every depth 0..2 and height 1..8, and (variant contracts of HTree.remove/setReq, body only) every inner node on a written key's path is marked for recomputation; upper tree: the node of a bucket carries the bucket's root iff the bucket is served, else zero, and an upper listing reports the 16 children of the node named by the path",
         "not under contract: inner-node aggregation (the fold over 16 children in updateNodes/updateNodesUpper: obligations generated, not decided by the solvers), listing inside a bucket (listDir/ListDir), dump/load, Bucket.open; callers of the variant contracts are not checked against their preconditions; the C leaf memory (ToBytes/enlarge) and findInBytes (C branch) are assumed, the Go branch of findInBytes is verified on a verbatim ghost copy; history independence rests on the map-sum equations proved in Lean (lemmas/MapSum.lean) applied to the delta contracts"),
 "C09": ("record sizes/padding, header codec round trip, WriteRecord.append byte-exact stream layout incl. zero padding, readRecordAt returns a record iff the file bytes at the offset are an intact record (sizes admissible, extent inside the file, stored CRC equal to the CRC of header[4:24]+key+value, via a verified CRC-fold lemma), sequential Next/nextValid return the FIRST intact 256-aligned record at or after the position, its bytes, and continue right behind its padding",
         "assumed: ghost file system (os.File/bufio/io models), C CRC loop (table proved, step lemma proved, loop bounded-checked); I/O errors other than end-of-file are excluded for the scanner (reliable_io)"),
 "C10": ("flag/ownership logic around compression is the identity for clients given the assumed QuickLZ codec relation; value hash taken from the uncompressed bytes; safe decompress entry points and C<->Go round trips (incl. matches at the format's offset/length thresholds) as bounded stand-ins",
         "assumed: QuickLZ codecs (C and Go) related through an uninterpreted decompression function; CArray.Alloc (cgo malloc); bounded (not proof): cross round trips, safe-decompress fuzz. Not under contract: the read paths that call Decompress (GetRecordByOffset), hint rebuild (buildHintFromData)"),
 "C11": ("ServerConn.ServeOnce, for every outcome of the parser, the interpreter, the storage client and the clock: when it returns without error and the connection stays open, the command got a reply (at least one byte written to the connection's writer) unless it asked for noreply, every byte written has been flushed, and the per-connection request object is reset (NoReply false, no item) so nothing carries over to the next command; Request.Clear and Shutdown verified; special keys: a record by key hash ('@@', /keyhash) reaches the store only with a full 16-digit path and a listing ('@') only with a path the tree code accepts (callers checked against the store's preconditions; StorageClient.Get as a variant contract for '@' keys, body only)",
         "scope: executions in which no callee panics (recover() is modelled as an arbitrary value; what a panic inside Read/Process skips is not modelled, so the 'never crashes / never wedged' half of C11 and design findings F5/F13 are not decided); verified: Request.Read and Request.Process (string splitting and number parsing opaque; storage client through assumed interface-method contracts); assumed: Response.Write (a reply is >= 1 byte, nothing for noreply), token limiter, bufio.Writer as a ghost byte stream with a flushed prefix. Not covered: syntactic validity of replies, byte-exact value transfer, request/response round trip (string formats are opaque to the verifier), ordering across pipelined commands beyond 'flushed before the next read'"),
 "C12": ("per-call contribution contracts of the buffer counters: ResourceLimiter arithmetic, CArray alloc/free/copy, TryCompress/Decompress/Copy allocation balance, readRecordAt and the scanner, Bucket.get (a returned payload is charged exactly once, nothing else), Bucket.incr and HStore.Incr (GetData returns to its old value), Bucket.set (SetData -> FlushData move)",
         "not under contract: request tokens, Response.CleanBuffer, dataChunk.flush; AppendRecord/GetRecordByPos accounting clauses are assumed (read off the code); counters are treated sequentially (atomics as plain adds); environment failures (refused allocation) are outside the clauses"),
 "C13": ("hint buffer: representation invariant preserved, whole-view postcondition (every other (hash,key) pair reads back unchanged, a refused Set changes nothing), Set/Get composition lemmas; collision table compareAndSet/get whole-view postconditions (newest position wins unless GC relocates; other entries untouched); merge writer reports every member of a same-hash group; merge order (which entry of one key survives); collision branch of Bucket.get as a variant contract (body only): the colliding key's record is read at the position the hint index reports, every call on the branch meets its callee's precondition",
         "not proved: that the record at the reported position is the wanted key's (log view not connected to the hint index; getItem assumed); GC's use of collision information, restart (tombstone replay, design finding F11 not re-derived)"),
 "C14": ("hint file header and item codec (writer appends exactly the item encoding, reader decodes the item at its offset), lookup uses the reader in sync with its logical offset and returns only an item with exactly the wanted (hash,key), comparison orders (byKeyHash, mergeHeap, Position.CmpKey monotone), merge writer flush",
         "not under contract: HintBuffer.Dump ordering, index-row well-formedness and completeness of get (item found iff present), merge() main loop, mergeWriter.write (contract exists, one conjunct at the solver limit, not in the check); sort/heap are library contracts"),
 "C15": ("path digits, bucket id = leading digits, InitTree derived configuration for 1/16/256 buckets, path parsing; every depth 0..2 enumerated; HStore.Get/Incr route to exactly the bucket named by the leading digits and a bucket that is not READY answers a miss and touches nothing; upper-level listing: updateNodesUpper gives the node of a bucket the bucket's root iff the bucket is served (else zero), ListUpper reports the 16 children of the node named by the path (variant contract, body only)",
         "not under contract: NewHStore's choice of buckets to open, the fold over the 16 children of an upper node (obligations generated, not decided by the solvers); HTree.Update assumed incl. separation of node arrays; directory naming (fmt.Sprintf) checked by an exhaustive run over its whole domain, labelled bounded"),
 "C16": ("fnv1a (both copies), value hash, key-hash composition, CRC-32 table (256 ground obligations) and table step lemma proved for all inputs",
         "assumed + bounded differential: murmur3 library, the C CRC loop (crc32.write)"),
 "C02": ("the two replay loops of a restart, step by step, for every file content: buildHintFromData turns every record the scanner delivers from the start offset on into exactly one hint item carrying the record's key, key hash, version (tombstones included) and offset (ghost counters: items indexed = records scanned; step assertion per item); updateHtreeFromHint applies every item the hint reader delivers exactly once: a live version points the slot of its key hash at (chunk, offset) with the item's version and value hash, a tombstone removes the slot unconditionally (step assertions against the tree view; counters: items applied = items read)",
         "protocol level and partial: not under contract are Bucket.open (which files are replayed, in which order, which dump is loaded), checkHintWithData's decision, tree dump/load, hint dumping at close, the value-hash computation during the rebuild (bit-level contracts of C10/C16 are not usable from these mathematical-integer loops), and the end-to-end statement 'the rebuilt mapping equals the old one'; shutdown/flush schedules are outside the technique. Assumed: the scanner/hint-reader coupling counters, HTree.set/remove tree view, hintMgr.setItem, reader seek, reliable I/O, a hint file that has its 16-byte header (the result of open is not checked by the code: a shorter file crashes the restart - observation)"),
 "C03": ("the protocol of the GC pass GCMgr.gc, step by step, for every bucket state, range and record sequence: no tree slot changes its existence, version or value hash (the pass only re-points slots; holds at every return including a cancelled pass); keep rule (a record is kept iff the slot of its key hash points at exactly its position, or it is a tombstone unknown to the tree in a pass not starting at file 0); move (the record appended is the one just scanned, it lands at the destination's write head and the slot is re-pointed at exactly that position); in-place rewriting never lets the write head pass the read position; a rewritten file is truncated only after it was scanned to its end and a file is removed only if it is not the destination; no chunk is left in rewriting state",
         "protocol level, NOT an end-to-end theorem over file contents: an inductive proof over a record view of the files (which record lives at which position) was written and is beyond the solvers (DESIGN.md §3 C03); the step from the verified protocol to 'every key reads the same' is an argument in DESIGN.md. Assumed: chunk operations (AppendRecordGC, endGCWriting, Clear, GetStreamReader), tree view (HTree.get/set), hint manager calls, scan-end ghost state set by DataStreamReader.Next, no collisions, no concurrent writes, reliable I/O, data files never larger than DataFileMax. Not covered: restart after GC (resurrection through rebuilt indexes), the choice of the destination file, hint merging"),
 "C18": ("same contract as C03 (GCMgr.gc): the keep rule decides exactly which records reach the destination (only the current record of a key or a retained tombstone), each kept record is written once at the write head, a fully scanned rewritten file is cut at the write head (endGCWriting is called for every destination, so every chunk ends idle), a source that is not the destination is removed",
         "protocol level (see C03); not covered: byte-for-byte identity of the untouched prefix of an append-only destination (the writer is opened in append mode: assumed in GetStreamWriter), 'a second pass releases nothing' (needs the file-level view), colliding keys"),
 "C17": ("GC range resolution (start/end clipping, head chunk excluded, non-empty ends, age limit against a ghost clock), admission: refused/pretend change nothing and spawn nothing, accepted => exactly one spawn and the bucket registered before return; CancelGC frame",
         "assumed: lock semantics (sequential view), getFirstRecTs file I/O, time as a non-decreasing ghost clock. The body of the pass (GCMgr.gc) is checked under C03/C18; the admin web handler handleGC is under contract for what it passes to HStore.GC (form values are an uninterpreted function of the request)"),
}
NA = {
 "C04": "quantifies over goroutine interleavings; the contract engine verifies one sequential execution of one function and has no thread/permission reasoning (DESIGN.md §3 C04)",
 "C05": "quantifies over interleavings of GC with client writes; same reason as C04 (DESIGN.md §3 C05)",
 "C06": "quantifies over crash points; needs crash-Hoare logic with a verified recovery procedure, which a per-function contract engine cannot express (DESIGN.md §3 C06)",
 "C07": "quantifies over crash points during GC; same reason as C06 (DESIGN.md §3 C07)",
}
PENDING = "contract chain not completed: the top-level obligations of this property are not under contract (DESIGN.md §0 and §3 say what exists and what is missing)"
NA.update({
})

props = [json.loads(l) for l in open('/verif/properties.jsonl')]
checks, na = [], []
for p in props:
    pid = p['id']
    if pid in CLAIMS:
        text, note = CLAIMS[pid]
        checks.append({
          "property_id": pid,
          "quick_cmd": "/verif/bin/govc check -property %s -tier quick" % pid,
          "thorough_cmd": "/verif/bin/govc check -property %s -tier thorough" % pid,
          "evidence_file": "/verif/evidence/%s.json" % pid,
          "replay_cmd_template": "/verif/bin/govc replay {path}",
          "engine": "govc",
          "level_claimed": {"category": "proof",
             "text": "contracts on the real Go functions, verification conditions generated by govc from the typed AST of /repo and discharged by z3/cvc5 for all inputs. Proved here: " + text,
             "design_ref": "DESIGN.md §3 " + pid},
          "level_note": "trusted: govc itself, the SMT solvers, go/types, sequential crash-free execution. " + note + ". Assumed contracts and abstractions actually used are enumerated per run in the evidence file.",
          "technique": "contract-based deductive verification (own WP/VC generator over go/ast+go/types, SMT portfolio z3/cvc5)"
        })
    else:
        na.append({"property_id": pid, "reason": NA.get(pid, PENDING)})
hs = subprocess.check_output(['git', '-C', '/repo', 'log', '--format=%h %s']).decode().strip().split('\n')
m = {"version": 1,
 "setup_cmd": "cd /verif/govc && GOFLAGS=-mod=mod GOPROXY=off GOSUMDB=off GOTOOLCHAIN=local go build -o /verif/bin/govc . && lean /verif/lemmas/MapSum.lean",
 "hooks": {"guard": "verif",
   "enable": "go build tag: -tags verif (files verif_contracts*.go in each package: //@ contract comments and pure/ghost spec functions only; no executable code of the repository is instrumented)",
   "baseline_off_cmd": "/verif/baseline_off.sh",
   "source_commits": [h.split()[0] for h in hs if 'verif hook' in h],
   "add_only": True},
 "engines": [{"name": "govc", "path": "/verif/govc", "serves_properties": sorted(CLAIMS),
   "kind_free_text": "deductive verifier for a Go subset: contracts as //@ comments in /repo/<pkg>/verif_contracts*.go, symbolic execution (weakest-precondition style) over go/ast+go/types with a Burstall-Bornat heap, obligations discharged by z3 4.8.12 / z3 5.1.0 / cvc5 1.0; replay of counterexamples on the real code through go test -overlay"}],
 "checks": checks,
 "not_applicable": na,
 "notes": "See DESIGN.md. Exit codes of govc check: 0 pass (possibly KNOWN-FINDING lines), 1 VIOLATION, 3 UNDECIDED/tool error. fix: commits in /repo: " + ", ".join(h.split()[0] for h in hs if h.split(' ',1)[1].startswith('fix:'))}
json.dump(m, open('/verif/MANIFEST.json', 'w'), indent=1)
print("claims:", sorted(CLAIMS), "fixes:", [h for h in hs if 'fix:' in h])
