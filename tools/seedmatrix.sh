#!/bin/bash
# seedmatrix.sh [jobs-file]: run "<property-of-seed>/<n> <check property>" pairs (one per line) through
# seedcheck.sh, two at a time; raw result lines go to /verif/seeded/RESULTS.raw
jobs=${1:-/verif/seeded/jobs.txt}
export out=/verif/seeded/RESULTS.raw
run() { sd=$1; p=$2; r=$(/verif/tools/seedcheck.sh /verif/seeded/$sd $p 2>&1 | grep -v '^==' | tr '\n' ' ' | cut -c1-600); echo "$sd $p :: $r" >> $out; }
export -f run
grep -v '^#' $jobs | grep . | xargs -P 2 -L 1 bash -c 'run $0 $1'
