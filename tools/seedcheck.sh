#!/bin/bash
# seedcheck.sh <seed dir> <property> [more properties]: run the property checks against a scratch
# copy of /repo with the seeded change applied; evidence/replays go to a scratch output directory.
sd="$1"; shift
out=/var/tmp/seedcheck_out_$$; mkdir -p $out
for p in "$@"; do
  echo "== $(basename $(dirname $sd))/$(basename $sd) vs $p"
  GOVC_OUT=$out /verif/selftest/mutant.sh "$sd/patch.diff" check -property $p 2>&1 | grep -E "^VIOLATION|^UNDECIDED|^KNOWN|^property=" | cut -c1-400
done
rm -rf $out
