#!/bin/bash
# validate_seed.sh <seed dir> : confirm a seeded change in a scratch worktree:
#   builds, demo passes without / fails with the change, touched packages' tests pass with it.
# Prints a JSON line with the outcome.
set -u
sd="$1"; name=$(basename $(dirname "$sd"))_$(basename "$sd")
export GOFLAGS=-mod=mod GOPROXY=off GOSUMDB=off GOTOOLCHAIN=local
wt=$(mktemp -d /var/tmp/seedval.XXXXXX)
trap 'git -C /repo worktree remove --force "$wt" >/dev/null 2>&1; rm -rf "$wt" /var/tmp/tb_$name' EXIT
git -C /repo worktree add -q --detach "$wt" HEAD || exit 2
cd "$wt"
demo=$(ls "$sd"/zz_seed_*_test.go "$sd"/*_test.go 2>/dev/null | head -1)
pkg=$(python3 -c "
import json,sys,re
m=json.load(open('$sd/meta.json'))
print('x')" 2>/dev/null)
# package of the demo: read its package clause and find the directory by grepping the patch / meta
dpkg=$(grep -m1 '^package ' "$demo" | awk '{print $2}')
case "$dpkg" in store|memcache|quicklz|cmem|utils|config|gobeansdb) ddir=$dpkg;; *) ddir=store;; esac
cp "$demo" "$ddir/"
tname=$(grep -o 'func Test[A-Za-z0-9_]*' "$demo" | head -1 | awk '{print $2}')
mkdir -p /var/tmp/tb_$name
args=""; [ "$ddir" = store ] && args="-args -base /var/tmp/tb_$name"
go test -vet=off -count=1 -timeout 300s -run "^${tname}\$" ./$ddir $args > /tmp/val_${name}_without.log 2>&1; r_without=$?
git apply "$sd/patch.diff" || { echo "{\"seed\":\"$name\",\"error\":\"patch does not apply\"}"; exit 0; }
go build ./... > /tmp/val_${name}_build.log 2>&1; r_build=$?
go test -vet=off -count=1 -timeout 300s -run "^${tname}\$" ./$ddir $args > /tmp/val_${name}_with.log 2>&1; r_with=$?
rm -f "$ddir/$(basename $demo)"
pkgs=$(git diff --name-only | xargs -n1 dirname | sort -u | sed 's|^|./|' | tr '\n' ' ')
rm -rf /var/tmp/tb_$name; mkdir -p /var/tmp/tb_$name
r_suite=0
for p in $pkgs ./store; do
  [ "$p" = ./gobeansdb ] && continue
  a=""; [ "$p" = ./store ] && a="-args -base /var/tmp/tb_$name"
  go test -vet=off -count=1 -timeout 25m $p $a > /tmp/val_${name}_suite.log 2>&1 || { grep -q "TestMerge3" /tmp/val_${name}_suite.log && go test -vet=off -count=1 -timeout 25m $p $a > /tmp/val_${name}_suite.log 2>&1 || r_suite=1; }
done
echo "{\"seed\":\"$name\",\"build\":$r_build,\"demo_without\":$r_without,\"demo_with\":$r_with,\"suite_with\":$r_suite}"
