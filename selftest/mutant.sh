#!/bin/bash
# usage: mutant.sh <patch> <govc args...>   — run govc against a scratch copy of /repo with the patch applied
set -u
patch="$1"; shift
d=$(mktemp -d /var/tmp/govc_mut.XXXXXX)
trap 'rm -rf "$d"' EXIT
rsync -a --exclude .git /repo/ "$d/"
( cd "$d" && patch -p1 -s < "$patch" ) || { echo "PATCH FAILED"; exit 9; }
GOVC_REPO="$d" ${GOVC_BIN:-/verif/bin/govc} "$@"
