#!/bin/bash
# Runs the repository's pinned test suite with the verif guard OFF (no -tags verif).
# TestConfig (gobeansdb) always fails in this sandbox (BASELINE.json: always_fail); TestMerge3 is
# flaky in the pinned tree (DESIGN.md §4 F14) and is rerun once if it fails.
export GOFLAGS=-mod=mod GOPROXY=off GOSUMDB=off GOTOOLCHAIN=local
cd /repo || exit 2
out=$(mktemp)
go test -json -vet=off -count=1 -timeout 25m ./... | tee "$out"
if grep -q '"Action":"fail","Package":"github.com/douban/gobeansdb/store","Test":"TestMerge3"' "$out"; then
  echo "--- rerun of flaky TestMerge3"
  go test -json -vet=off -count=1 -run '^TestMerge3$' ./store
fi
rm -f "$out"
