# Hand encoding of HintBuffer.Set (store/hint.go) to test that invariants I1..I7 of the draft
# catalogue are inductive and imply the whole-view postcondition. Throw-away design spike.
from z3 import *
import time
Str = DeclareSort('Str'); Ref = IntSort(); MapRef = IntSort()
kh   = Function('kh', Ref, IntSort())       # item.Keyhash (items are immutable here)
key  = Function('key', Ref, Str)            # item.Key
A_IR = ArraySort(IntSort(), Ref)
def state(sfx):
    return dict(
      items = Const('items'+sfx, A_IR), num = Int('num'+sfx),
      idxDom= Const('idxDom'+sfx, ArraySort(IntSort(), BoolSort())), idxVal = Const('idxVal'+sfx, ArraySort(IntSort(), IntSort())),
      colDom= Const('colDom'+sfx, ArraySort(IntSort(), BoolSort())), colMap = Const('colMap'+sfx, ArraySort(IntSort(), MapRef)),
      inDom = Const('inDom'+sfx, ArraySort(MapRef, ArraySort(Str, BoolSort()))), inVal = Const('inVal'+sfx, ArraySort(MapRef, ArraySort(Str, IntSort()))),
      nextMap = Int('nextMap'+sfx))
cap = Int('cap')
def HB(s):
    i,j,h = Ints('i j h'); k = Const('k', Str)
    it = lambda x: s['items'][x]
    cm = lambda hh: s['colMap'][hh]
    reg = lambda x: And(s['colDom'][kh(it(x))], s['inDom'][cm(kh(it(x)))][key(it(x))], s['inVal'][cm(kh(it(x)))][key(it(x))] == x)
    return [
      ('bounds', And(0 <= s['num'], s['num'] <= cap, cap >= 1, s['nextMap'] >= 0)),
      ('I1', ForAll([h], Implies(s['idxDom'][h], And(0 <= s['idxVal'][h], s['idxVal'][h] < s['num'], kh(it(s['idxVal'][h])) == h)))),
      ('I2', ForAll([h,k], Implies(And(s['colDom'][h], s['inDom'][cm(h)][k]),
             And(0 <= s['inVal'][cm(h)][k], s['inVal'][cm(h)][k] < s['num'], key(it(s['inVal'][cm(h)][k])) == k, kh(it(s['inVal'][cm(h)][k])) == h)))),
      ('I3', ForAll([i], Implies(And(0 <= i, i < s['num']), Or(And(s['idxDom'][kh(it(i))], s['idxVal'][kh(it(i))] == i), reg(i))))),
      ('I4', ForAll([i,j], Implies(And(0 <= i, i < j, j < s['num'], kh(it(i)) == kh(it(j))), And(reg(i), reg(j))))),
      ('I5', ForAll([i,j], Implies(And(0 <= i, i < j, j < s['num']), Or(kh(it(i)) != kh(it(j)), key(it(i)) != key(it(j)))))),
      ('I6', ForAll([h,j], Implies(And(s['colDom'][h], s['colDom'][j], h != j), cm(h) != cm(j)))),
      ('I6alloc', ForAll([h], Implies(s['colDom'][h], And(0 <= cm(h), cm(h) < s['nextMap'])))),
      ('I7', ForAll([i], Implies(And(0 <= i, i < s['num']), s['idxDom'][kh(it(i))]))),
      ('I9', ForAll([h], Implies(s['colDom'][h], s['idxDom'][h]))),
      ('I8', ForAll([i], Implies(And(0 <= i, i < s['num'], s['colDom'][kh(it(i))]), reg(i)))),
    ]
def view(s, h, k, x):   # slot x holds (h,k)
    return And(0 <= x, x < s['num'], kh(s['items'][x]) == h, key(s['items'][x]) == k)

s0 = state('0')
newit = Int('newit')           # the item being set
H, K = kh(newit), key(newit)
# --- symbolic execution of Set, following the code ---
idx0, found0 = s0['idxVal'][H], s0['idxDom'][H]
iscoll = And(found0, K != key(s0['items'][idx0]))
# inside collision branch
hasmap = s0['colDom'][H]
m_old = s0['colMap'][H]
m_new = s0['nextMap']
# case A: iscoll & hasmap : idx,found = keys[K]
idxA, foundA = s0['inVal'][m_old][K], s0['inDom'][m_old][K]
# case B: iscoll & !hasmap: create map with existing key; found=false
inDomB = Store(s0['inDom'], m_new, Store(K_dummy := Const('emptyDom', ArraySort(Str, BoolSort())), key(s0['items'][idx0]), True))
inValB = Store(s0['inVal'], m_new, Store(s0['inVal'][m_new], key(s0['items'][idx0]), idx0))
emptyDom = Const('emptyDom', ArraySort(Str, BoolSort()))
kq = Const('kq', Str)
emptyAx = ForAll([kq], emptyDom[kq] == False)
colDomB = Store(s0['colDom'], H, True); colMapB = Store(s0['colMap'], H, m_new)
# merged state after the collision block
found1 = If(iscoll, If(hasmap, foundA, False), found0)
idx1   = If(iscoll, If(hasmap, idxA, idx0), idx0)
colDom1 = If(And(iscoll, Not(hasmap)), colDomB, s0['colDom'])
colMap1 = If(And(iscoll, Not(hasmap)), colMapB, s0['colMap'])
inDom1  = If(And(iscoll, Not(hasmap)), inDomB, s0['inDom'])
inVal1  = If(And(iscoll, Not(hasmap)), inValB, s0['inVal'])
nextMap1= If(And(iscoll, Not(hasmap)), m_new+1, s0['nextMap'])
# if !found: idx = num; if idx >= len(items) return false; num++
full = And(Not(found1), s0['num'] >= cap)
idx2 = If(found1, idx1, s0['num'])
num2 = If(found1, s0['num'], s0['num']+1)
# success path writes
items2 = Store(s0['items'], idx2, newit)
idxDom2 = Store(s0['idxDom'], H, True); idxVal2 = Store(s0['idxVal'], H, idx2)
cm2 = colMap1[H]
inDom2 = If(iscoll, Store(inDom1, cm2, Store(inDom1[cm2], K, True)), inDom1)
inVal2 = If(iscoll, Store(inVal1, cm2, Store(inVal1[cm2], K, idx2)), inVal1)
sOK = dict(items=items2, num=num2, idxDom=idxDom2, idxVal=idxVal2, colDom=colDom1, colMap=colMap1, inDom=inDom2, inVal=inVal2, nextMap=nextMap1)
sFull = dict(items=s0['items'], num=s0['num'], idxDom=s0['idxDom'], idxVal=s0['idxVal'], colDom=colDom1, colMap=colMap1, inDom=inDom1, inVal=inVal1, nextMap=nextMap1)
# the new item is a fresh pointer: not already stored in a slot unless it is being replaced by itself (ignore aliasing: require different from all stored)
ii = Int('ii')
fresh = ForAll([ii], Implies(And(0 <= ii, ii < s0['num']), s0['items'][ii] != newit))
pre = And(And([c for _,c in HB(s0)]), emptyAx, fresh)

import sys
MODE = sys.argv[1] if len(sys.argv)>1 else 'default'
def check(name, goal, extra=True, timeout=60000):
    s = Solver(); s.set('timeout', timeout)
    if MODE=='ematch': s.set('smt.mbqi', False); s.set('smt.auto_config', False)
    if MODE=='dump' and ('I3' in name or 'I4' in name) and 'collA' in name:
        s.add(pre, extra, Not(goal)); open('/tmp/hb/'+name.replace(' ','_').replace('(','').replace(')','').replace(',','_')+'.smt2','w').write('(set-logic ALL)\n'+s.to_smt2()); return
    s.add(pre, extra, Not(goal))
    t=time.time(); r = s.check()
    print(f'{name:45s} {r}  {time.time()-t:.2f}s')
    return r

# 1. invariant preserved on success and on the "full" path
cases = [('nocoll', Not(iscoll)), ('collA.found', And(iscoll, hasmap, foundA)), ('collA.new', And(iscoll, hasmap, Not(foundA))), ('collB', And(iscoll, Not(hasmap)))]
for cn, cc in cases:
    for (tag, c) in HB(sOK):
        check(f'HB.{tag} preserved (success,{cn})', c, And(Not(full), cc), 20000)
for (tag, c) in HB(sFull):
    check(f'HB.{tag} preserved (full)', c, full, 20000)

# 2. whole-view postcondition on success: view' = view[(H,K) -> newit]
hq = Int('hq'); xq = Int('xq')
# (a) the new item is in the view at slot idx2
check('view\' has (H,K) at idx2', view(sOK, H, K, idx2), Not(full))
# (b) every other (h,k) present before is still present at the same slot with the same item
other = Implies(And(view(s0, hq, kq, xq), Or(hq != H, kq != K)), And(view(sOK, hq, kq, xq), sOK['items'][xq] == s0['items'][xq]))
check('other keys keep slot and item', other, Not(full))
# (c) nothing else appears
nonew = Implies(And(view(sOK, hq, kq, xq), Or(hq != H, kq != K)), view(s0, hq, kq, xq))
check('no other key appears', nonew, Not(full))
# 3. full path: view unchanged is trivial (items, num unchanged); (H,K) was absent
absent = Not(Exists([xq], view(s0, H, K, xq)))
check('full => (H,K) absent before', absent, full)
# 4. Get correctness against the view, in any HB state
def get(s, h, k):
    idx, found = s['idxVal'][h], s['idxDom'][h]
    coll = And(found, k != key(s['items'][idx]))
    hm = s['colDom'][h]; m = s['colMap'][h]
    found2 = If(coll, If(hm, s['inDom'][m][k], False), found)
    idx2 = If(coll, If(hm, s['inVal'][m][k], idx), idx)
    return found2, idx2
f,ix = get(s0, hq, kq)
check('Get sound', Implies(f, view(s0, hq, kq, ix)))
check('Get complete', Implies(view(s0, hq, kq, xq), And(f, ix == xq)))
