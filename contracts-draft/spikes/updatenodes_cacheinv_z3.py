# Hand encoding of HTree.updateNodes (store/htree.go) for tree height H=3 (levels 0,1,2; level 2 = leaf level)
# to test the CacheInv formulation of DESIGN C08: loop invariant + recursive callee contract. Throw-away spike.
from z3 import *
import time, sys
BV16 = BitVecSort(16)
I = IntSort()
A2I = ArraySort(I, ArraySort(I, I)); A2H = ArraySort(I, ArraySort(I, BV16)); A2B = ArraySort(I, ArraySort(I, BoolSort()))
def heap(s): return dict(cnt=Const('cnt'+s, A2I), hsh=Const('hsh'+s, A2H), upd=Const('upd'+s, A2B))
H=3
def width(l): return 16**l
def cnt(h,l,o): return h['cnt'][l][o]
def hsh(h,l,o): return h['hsh'][l][o]
def upd(h,l,o): return h['upd'][l][o]
# specNode as uninterpreted functions of the leaf-level arrays, with one-level unfolding axioms (pattern = application)
AI = ArraySort(I,I); AH = ArraySort(I,BV16)
specC = Function('specC', AI, AH, I, I, I)
specH = Function('specH', AI, AH, I, I, BV16)
def spec_axioms():
    lc = Const('lc', AI); lh = Const('lh', AH); o = Int('oa'); ax=[]
    ax.append(ForAll([lc,lh,o], specC(lc,lh,H-1,o) == lc[o], patterns=[specC(lc,lh,H-1,o)]))
    ax.append(ForAll([lc,lh,o], specH(lc,lh,H-1,o) == lh[o], patterns=[specH(lc,lh,H-1,o)]))
    for l in range(H-1):
        cs=[specC(lc,lh,l+1,16*o+i) for i in range(16)]; hs=[specH(lc,lh,l+1,16*o+i) for i in range(16)]
        total=Sum(cs)
        ax.append(ForAll([lc,lh,o], specC(lc,lh,l,o) == total, patterns=[specC(lc,lh,l,o)]))
        ax.append(ForAll([lc,lh,o], specH(lc,lh,l,o) == AGG(total>256, *hs), patterns=[specH(lc,lh,l,o)]))
    return ax
AGG = Function('AGG', BoolSort(), *([BV16]*16), BV16)
AX = spec_axioms()
def spec(h, l, o):
    return specC(h['cnt'][H-1], h['hsh'][H-1], l, o), specH(h['cnt'][H-1], h['hsh'][H-1], l, o)
def inrange(l,o): return And(0 <= o, o < width(l))
def CacheInv(h):
    o = Int('o'); cs=[]
    for l in range(H-1):
        c,x = spec(h,l,o)
        cs.append(ForAll([o], Implies(And(inrange(l,o), upd(h,l,o)), And(cnt(h,l,o)==c, hsh(h,l,o)==x))))
    return And(cs)
def LeafUpd(h):
    o=Int('o'); return ForAll([o], Implies(inrange(H-1,o), upd(h,H-1,o)))
def LeafSame(h1,h2):
    return And(h1['cnt'][H-1]==h2['cnt'][H-1], h1['hsh'][H-1]==h2['hsh'][H-1], h1['upd'][H-1]==h2['upd'][H-1])
def Mono(h1,h2):
    o=Int('o'); return And([ForAll([o], Implies(And(inrange(l,o), upd(h1,l,o)), upd(h2,l,o))) for l in range(H)])
def Frame(h1,h2,level,offset):
    # nodes at levels < level unchanged; nodes at `level` other than offset unchanged  (level python int)
    o=Int('o'); cs=[]
    for l in range(level+1):
        cond = inrange(l,o) if l<level else And(inrange(l,o), o!=offset)
        cs.append(ForAll([o], Implies(cond, And(cnt(h1,l,o)==cnt(h2,l,o), hsh(h1,l,o)==hsh(h2,l,o), upd(h1,l,o)==upd(h2,l,o)))))
    return And(cs)
def Post(h0,h1,level,offset):
    return [('CacheInv',CacheInv(h1)), ('updated',upd(h1,level,offset)), ('LeafSame',LeafSame(h0,h1)), ('Mono',Mono(h0,h1)), ('Frame',Frame(h0,h1,level,offset))]

def run(level):
    offset = Int('offset'); i = Int('i')
    h0 = heap('0')
    pre = And(CacheInv(h0), LeafUpd(h0), inrange(level, offset))
    results=[]
    def check(name, assumptions, goal, to=30000):
        s=Solver(); s.set('timeout',to); s.add(AX); s.add(assumptions); s.add(Not(goal))
        t=time.time(); r=s.check(); print(f'L{level} {name:40s} {r} {time.time()-t:.2f}s'); results.append(r)
    # path 1: node already updated -> return; post trivially from pre
    for tag,g in Post(h0,h0,level,offset):
        check('early-return '+tag, [pre, upd(h0,level,offset)], g)
    # path 2: node.count = 0 ; loop 16 x { cnode = updateNodes(level+1, 16*offset+i); node.count += cnode.count; hashs[i]=cnode.hash }
    # loop invariant at iteration i over heap hL with accumulators acc (Int) and hashs (Array Int BV16)
    hL = heap('L'); acc = Int('acc'); hashs = Const('hashs', ArraySort(I,BV16)); t=Int('t')
    def childSpecC(h,tt): return spec(h, level+1, 16*offset+tt)[0]
    def childSpecH(h,tt): return spec(h, level+1, 16*offset+tt)[1]
    # sum of the first i children counts, written as explicit ite-sum (i ranges 0..16)
    def partial(h, ii): return Sum([If(ii > k, spec(h, level+1, 16*offset+k)[0], 0) for k in range(16)])
    Inv = lambda h, ii, a, hs: And(0 <= ii, ii <= 16, CacheInv(h), LeafSame(h0,h), Mono(h0,h), Frame(h0,h,level,offset) if level>0 else True,
                                   # node (level,offset) itself may have been written (count reset); other nodes at this level untouched: in Frame
                                   a == partial(h, ii),
                                   And([Implies(ii > k, hs[k] == spec(h, level+1, 16*offset+k)[1]) for k in range(16)]),
                                   Not(upd(h,level,offset)))
    # init: after `node.count = 0` (heap h0 with cnt[level][offset]=0)
    hi = dict(cnt=Store(h0['cnt'], level, Store(h0['cnt'][level], offset, 0)), hsh=h0['hsh'], upd=h0['upd'])
    check('loop init', [pre, Not(upd(h0,level,offset))], Inv(hi, IntVal(0), IntVal(0), hashs))
    # preserve: assume Inv(hL,i,acc,hashs), i<16; call updateNodes(level+1, 16*offset+i): heap hC with callee post; then accumulate
    hC = heap('C'); child = 16*offset+i
    callee_post = And([g for _,g in Post(hL,hC,level+1,child)]) if level+1 < H-1 else And(hC['cnt']==hL['cnt'], hC['hsh']==hL['hsh'], hC['upd']==hL['upd'])  # leaf-level child: returns at once
    acc2 = acc + cnt(hC,level+1,child); hashs2 = Store(hashs, i, hsh(hC,level+1,child))
    ass = [pre, Not(upd(h0,level,offset)), Inv(hL,i,acc,hashs), i < 16, callee_post, LeafUpd(hL)]
    goal_parts = [('range',And(0<=i+1,i+1<=16)), ('CacheInv',CacheInv(hC)), ('LeafSame',LeafSame(h0,hC)), ('Mono',Mono(h0,hC)),
                  ('Frame',Frame(h0,hC,level,offset) if level>0 else BoolVal(True)), ('acc', acc2 == partial(hC, i+1)),
                  ('hashs', And([Implies(i+1 > k, hashs2[k] == spec(hC, level+1, 16*offset+k)[1]) for k in range(16)])), ('notupd', Not(upd(hC,level,offset)))]
    for tag,g in goal_parts:
        if tag in ('acc','hashs'):
            for iv in range(16):
                check(f'loop preserve {tag} [i={iv}]', ass+[i==iv], g)
        else:
            check('loop preserve '+tag, ass, g)
    # exit: i == 16: node.count = acc (already accumulated in place), node.hash = fold(hashs), isHashUpdated = true -> final heap hF
    total = acc
    newhash = AGG(total > 256, *[hashs[k] for k in range(16)])   # the code's 16-step fold, proved equal to the opaque spec separately
    hF = dict(cnt=Store(hL['cnt'], level, Store(hL['cnt'][level], offset, total)), hsh=Store(hL['hsh'], level, Store(hL['hsh'][level], offset, newhash)),
              upd=Store(hL['upd'], level, Store(hL['upd'][level], offset, True)))
    ass = [pre, Not(upd(h0,level,offset)), Inv(hL,IntVal(16),acc,hashs)]
    for tag,g in Post(h0,hF,level,offset):
        if tag=='CacheInv':
            oo=Int('oo')
            for l in range(H-1):
                c,x = spec(hF,l,oo)
                body = Implies(And(inrange(l,oo), upd(hF,l,oo)), And(cnt(hF,l,oo)==c, hsh(hF,l,oo)==x))
                if l==level:
                    check(f'exit post CacheInv l={l} o==offset', ass+[oo==offset], body)
                    check(f'exit post CacheInv l={l} o!=offset', ass+[oo!=offset], body)
                else:
                    check(f'exit post CacheInv l={l}', ass, body)
        else:
            check('exit post '+tag, ass, g)
    return results
r=[]
for level in (1,0): r += run(level)
print('total', len(r), 'unsat', sum(1 for x in r if x==unsat), 'other', [str(x) for x in r if x!=unsat])
